"""Shared by C01, C02, C03, C05, C07: the bounded patterning model (every charge
pattern up to a length as a TLC state) and the replay of its states into the
real getters."""
import os
from fractions import Fraction

from . import common, tlc

INV = {
    "C01": ["SentinelIffNoVariance", "KappaWellDefined", "KappaRangeOrK1"],
    "C02": ["DeltaIsDefinition", "DeltaZeroShort"],
    "C03": ["FamilyIsArrangement", "DMaxSymmetric"],
    "C05": ["ReverseInvariant", "InvertInvariant", "DMaxSymmetric"],
    "C07": ["SCDZeroFewCharges", "ReverseInvariant", "InvertInvariant"],
}


def mc_patterning(ctx, maxlen, props, checkdef=True, emit=True):
    invs = []
    for p in props:
        for i in INV[p]:
            if i not in invs:
                invs.append(i)
    cfg = tlc.write_cfg(os.path.join(ctx.work, "MC_Patterning_%d.cfg" % maxlen),
                        constants={"MaxLen": maxlen, "EmitRecords": emit, "CheckDef": checkdef},
                        invariants=invs + ["Emit"])
    res = tlc.run_tlc("MC_Patterning", cfg, ctx.work, workers=16, timeout=7200, continue_=True)
    ctx.add_tlc(res)
    if res.errors or not res.completed:
        raise tlc.MachineryError("MC_Patterning failed: %s" % (res.errors[:2] or res.stdout[-800:]))
    expect = (3 ** (maxlen + 1) - 1) // 2
    if res.distinct != expect:
        raise tlc.MachineryError("MC_Patterning: %d states, expected %d" % (res.distinct, expect))
    if emit and len(res.recs) != expect - 1:
        raise tlc.MachineryError("MC_Patterning: %d records for %d states" % (len(res.recs), expect))
    for v in res.violated:
        ctx.violation("model:" + v, {"module": "MC_Patterning", "MaxLen": maxlen},
                      expected="invariant holds in the specification", actual="TLC reports it violated")
    return res


def exact_of(rec):
    """Exact expected values of a MC_Patterning record."""
    dd = common.unlimbs(rec["dd"])
    delta = Fraction(common.unlimbs(rec["dn"]), dd)
    dmax = Fraction(common.unlimbs(rec["mn"]), dd)
    kappa = common.rat(rec["ks"], rec["kn"], rec["kd"])
    return delta, dmax, kappa
