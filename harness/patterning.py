"""Shared by C01, C02, C03, C05, C07: the bounded patterning model (every charge
pattern up to a length as a TLC state) and the replay of its states into the
real getters."""
import os
from fractions import Fraction

from . import common, tlc

INV = {
    "C01": ["SentinelIffNoVariance", "KappaWellDefined", "KappaRangeOrK1"],
    "C02": ["DeltaIsDefinition", "DeltaZeroShort", "LongChainFormSame"],
    "C03": ["FamilyIsArrangement", "DMaxSymmetric"],
    "C05": ["ReverseInvariant", "InvertInvariant", "DMaxSymmetric"],
    "C07": ["SCDZeroFewCharges", "ReverseInvariant", "InvertInvariant"],
}


def mc_patterning(ctx, maxlen, props, checkdef=True, emit=True):
    invs = []
    for p in props:
        for i in INV[p]:
            if i not in invs:
                invs.append(i)
    cfg = tlc.write_cfg(os.path.join(ctx.work, "MC_Patterning_%d.cfg" % maxlen),
                        constants={"MaxLen": maxlen, "EmitRecords": emit, "CheckDef": checkdef},
                        invariants=invs + ["Emit"])
    res = tlc.run_tlc("MC_Patterning", cfg, ctx.work, workers=16, timeout=7200, continue_=True)
    ctx.add_tlc(res)
    if res.errors or not res.completed:
        raise tlc.MachineryError("MC_Patterning failed: %s" % (res.errors[:2] or res.stdout[-800:]))
    expect = (3 ** (maxlen + 1) - 1) // 2
    if res.distinct != expect:
        raise tlc.MachineryError("MC_Patterning: %d states, expected %d" % (res.distinct, expect))
    if emit and len(res.recs) != expect - 1:
        raise tlc.MachineryError("MC_Patterning: %d records for %d states" % (len(res.recs), expect))
    for v in res.violated:
        ctx.violation("model:" + v, {"module": "MC_Patterning", "MaxLen": maxlen},
                      expected="invariant holds in the specification", actual="TLC reports it violated")
    return res


def exact_of(rec):
    """Exact expected values of a MC_Patterning record."""
    dd = common.unlimbs(rec["dd"])
    delta = Fraction(common.unlimbs(rec["dn"]), dd)
    dmax = Fraction(common.unlimbs(rec["mn"]), dd)
    kappa = common.rat(rec["ks"], rec["kn"], rec["kd"])
    return delta, dmax, kappa


def special_sequences(rng, maxn):
    """Long strongly correlated / skewed patterns (homopolymers, alternations, blocks, one odd charge)."""
    out = []
    for n in (129, 200, maxn):
        n = min(n, maxn)
        out += ["E" * n, "K" * n, ("EK" * n)[:n], "E" * (n // 2) + "K" * (n - n // 2),
                "E" * (n // 3) + "G" * (n // 3) + "K" * (n - 2 * (n // 3))]
    # skewed compositions where the delta-max family is known to be weak (finding K1)
    for comp in ((18, 1, 1), (12, 1, 1), (1, 18, 1), (20, 2, 19), (2, 30, 18)):
        s = list("E" * comp[0] + "K" * comp[1] + "G" * comp[2])
        rng.shuffle(s)
        out.append("".join(s))
    # no neutral residue, very few residues of one sign (the minority block must slide through all positions)
    for big, small in ((16, 1), (14, 2), (26, 3), (12, 1)):
        for a, b in (("R", "E"), ("D", "K")):
            s = list(a * big + b * small)
            rng.shuffle(s)
            out.append("".join(s))
            out.append(a * (big // 2) + b * small + a * (big - big // 2))
    out.append("KKKKEEEE")
    # long chains without any charged residue, one charged residue in a long chain
    out += [("GSQ" * 120)[:300], "N" * 257, ("GSQ" * 120)[:299] + "K"]
    out.append("K" + "E" * 18 + "G")
    out.append("E" * 9 + "K" + "E" * 9 + "G")
    out += ["Q" * 190 + "K" + "N" * 9, "S" * 100 + "E" + "G" * 180 + "K" + "Q" * 99]
    return [s[:maxn] for s in out]


def judge_traces(ctx, trs, need_sqrt=0, owns_k1=False):
    """Validate traces with Trace_Queries; turn rejections into violations and known findings."""
    from . import traces
    verdicts, known = traces.validate(ctx, "Trace_Queries", trs, {"sqrt": traces.sqrt_table(need_sqrt)})
    bytid = {t["tid"]: t for t in trs}
    for tid, ev, kid in known:
        if not owns_k1:
            continue    # a conforming reply that is out of range is finding K1 of C01; other properties only need conformance
        t = bytid[tid]
        ctx.known.append((kid.split(":")[1], "%s on %s" % (t["ev"][ev - 1]["q"], "".join(t["seq"])[:60])))
    for tr in trs:
        v = verdicts[tr["tid"]]
        ctx.traces += 1
        if v[0] == "reject":
            e = tr["ev"][v[1] - 1]
            ctx.violation(v[2], {"seq": "".join(tr["seq"]), "after": tr.get("after"), "event": e["q"],
                                 "args": {k: e[k] for k in e if k not in ("q", "r")}, "reply_fx": e.get("r")},
                          expected="reply matches the specification (Trace_Queries, 1e-9)", actual="trace rejected by TLC at event %d" % v[1])
        else:
            ctx.nontrivial.add("".join(tr["seq"]))
    return verdicts


# ---------------------------------------------------------------------------------------------
# composition strata of the delta-max search (the regimes of spec/Patterning.tla Regime/Family and the counts at which
# the sliding and splitting loops change shape), for the recorded-trace phases: random sequences almost never have
# 1..3 charges of one sign against 50, exactly 12..17 neutral residues, or two neighbouring compositions of one length
def composition_grid(rng, count):
    out = []
    while len(out) < count:
        k = (0, 1, 2, 3, 4, 5, 6, 7, 0, 3, 0, 1)[len(out) % 12]
        if k == 0:                                   # no neutrals, lopsided: the short block slides through a long one
            m = rng.randint(1, 12); M = rng.randint(3 * m, min(120, 14 * m)); c = (m, M, 0)
        elif k == 1:                                 # no neutrals, any ratio
            m = rng.randint(1, 30); M = rng.randint(m, 100); c = (m, M, 0)
        elif k == 2:                                 # few neutrals (general regime), few minority charges
            c = (rng.randint(0, 3), rng.randint(5, 80), rng.randint(1, 11))
        elif k == 3:                                 # 12..17 neutrals: still the general regime
            c = (rng.randint(1, 3), rng.randint(20, 100), rng.randint(12, 17))
        elif k == 4:                                 # 18 and more neutrals: at most six at either end
            c = (rng.randint(0, 6), rng.randint(5, 80), rng.randint(18, 40))
        elif k == 5:                                 # one charge type with neutrals (either block may be the longer one)
            c = (0, rng.randint(1, 60), rng.randint(1, 60))
        elif k == 6:                                 # balanced
            p = rng.randint(2, 40); c = (p, p + rng.randint(0, 2), rng.randint(0, 30))
        else:                                        # neighbours of one length above 100 residues
            N = rng.randint(101, 260); p = rng.randint(5, N // 3); n = rng.randint(5, N // 3)
            out += [(p, n, N - p - n), (p + 1, n, N - p - n - 1), (p, n + 1, N - p - n - 1)]
            continue
        out.append(c if rng.random() < 0.5 else (c[1], c[0], c[2]))
    return out[:count]


def arrange(comp, rng):
    """A charge pattern of composition comp: shuffled, or strongly segregated but off the documented family."""
    p, n, z = comp
    r = rng.random()
    if r < 0.6:
        x = [1] * p + [-1] * n + [0] * z
        rng.shuffle(x)
        return x
    if r < 0.8:                                      # all neutrals at one end, the shorter charged block a few residues in
        a, b = ((1, p), (-1, n)) if p <= n else ((-1, n), (1, p))
        k = rng.randint(0, min(6, b[1]))
        x = [0] * z + [b[0]] * k + [a[0]] * a[1] + [b[0]] * (b[1] - k)
        return x if rng.random() < 0.5 else x[::-1]
    s = rng.randint(0, z); e = rng.randint(0, z - s)
    return [0] * s + [1] * p + [0] * (z - s - e) + [-1] * n + [0] * e


def family_member(comp, rng):
    """One member of Family(p, n, z) of spec/Patterning.tla, drawn at random."""
    p, n, z = comp
    if p + n == 0:
        return [0] * z
    if p == 0 or n == 0:
        c, k = (-1, n) if p == 0 else (1, p)
        if z > k:
            pos = rng.randint(0, z); return [0] * pos + [c] * k + [0] * (z - pos)
        pos = rng.randint(0, k); return [c] * pos + [0] * z + [c] * (k - pos)
    if z == 0:
        if p > n:
            pos = rng.randint(0, p); return [1] * pos + [-1] * n + [1] * (p - pos)
        pos = rng.randint(0, n); return [-1] * pos + [1] * p + [-1] * (n - pos)
    if z >= 18:
        s, e = rng.randint(0, 6), rng.randint(0, 6)
    else:
        s = rng.randint(0, z); e = rng.randint(0, z - s)
    return [0] * s + [1] * p + [0] * (z - s - e) + [-1] * n + [0] * e


def family_lower_bound(ctx, lc, comps, members=6):
    """delta-max of a composition is at least the delta of every member of the documented family (both replies from the
    real code; delta itself is decided by C02).  Cheap, so it reaches compositions TLC is not asked about."""
    for comp in comps:
        base = arrange(comp, ctx.rng)
        seq = common.spell(base, ctx.rng)
        out = common.call(lambda: lc.SP(seq).get_deltaMax(), limit=120)
        ctx.evaluations += 1
        if out[0] != "ok" or not common.is_number(out[1]):
            ctx.violation("deltamax-failed", {"seq": seq, "composition": comp}, actual=out)
            continue
        for _ in range(members):
            mem = common.spell(family_member(comp, ctx.rng), ctx.rng)
            d = common.call(lambda: lc.SP(mem).get_delta())
            if d[0] == "ok" and common.is_number(d[1]) and float(d[1]) > float(out[1]) * (1 + 1e-9) + 1e-12:
                ctx.violation("deltamax-below-family-member", {"seq": seq, "composition": comp, "member": mem},
                              expected="get_deltaMax() >= get_delta() of every documented arrangement (here %r)" % float(d[1]), actual=float(out[1]))
                break
