"""Shared by C01, C02, C03, C05, C07: the bounded patterning model (every charge
pattern up to a length as a TLC state) and the replay of its states into the
real getters."""
import os
from fractions import Fraction

from . import common, tlc

INV = {
    "C01": ["SentinelIffNoVariance", "KappaWellDefined", "KappaRangeOrK1"],
    "C02": ["DeltaIsDefinition", "DeltaZeroShort"],
    "C03": ["FamilyIsArrangement", "DMaxSymmetric"],
    "C05": ["ReverseInvariant", "InvertInvariant", "DMaxSymmetric"],
    "C07": ["SCDZeroFewCharges", "ReverseInvariant", "InvertInvariant"],
}


def mc_patterning(ctx, maxlen, props, checkdef=True, emit=True):
    invs = []
    for p in props:
        for i in INV[p]:
            if i not in invs:
                invs.append(i)
    cfg = tlc.write_cfg(os.path.join(ctx.work, "MC_Patterning_%d.cfg" % maxlen),
                        constants={"MaxLen": maxlen, "EmitRecords": emit, "CheckDef": checkdef},
                        invariants=invs + ["Emit"])
    res = tlc.run_tlc("MC_Patterning", cfg, ctx.work, workers=16, timeout=7200, continue_=True)
    ctx.add_tlc(res)
    if res.errors or not res.completed:
        raise tlc.MachineryError("MC_Patterning failed: %s" % (res.errors[:2] or res.stdout[-800:]))
    expect = (3 ** (maxlen + 1) - 1) // 2
    if res.distinct != expect:
        raise tlc.MachineryError("MC_Patterning: %d states, expected %d" % (res.distinct, expect))
    if emit and len(res.recs) != expect - 1:
        raise tlc.MachineryError("MC_Patterning: %d records for %d states" % (len(res.recs), expect))
    for v in res.violated:
        ctx.violation("model:" + v, {"module": "MC_Patterning", "MaxLen": maxlen},
                      expected="invariant holds in the specification", actual="TLC reports it violated")
    return res


def exact_of(rec):
    """Exact expected values of a MC_Patterning record."""
    dd = common.unlimbs(rec["dd"])
    delta = Fraction(common.unlimbs(rec["dn"]), dd)
    dmax = Fraction(common.unlimbs(rec["mn"]), dd)
    kappa = common.rat(rec["ks"], rec["kn"], rec["kd"])
    return delta, dmax, kappa


def special_sequences(rng, maxn):
    """Long strongly correlated / skewed patterns (homopolymers, alternations, blocks, one odd charge)."""
    out = []
    for n in (129, 200, maxn):
        n = min(n, maxn)
        out += ["E" * n, "K" * n, ("EK" * n)[:n], "E" * (n // 2) + "K" * (n - n // 2),
                "E" * (n // 3) + "G" * (n // 3) + "K" * (n - 2 * (n // 3))]
    # skewed compositions where the delta-max family is known to be weak (finding K1)
    for comp in ((18, 1, 1), (12, 1, 1), (1, 18, 1), (20, 2, 19), (2, 30, 18)):
        s = list("E" * comp[0] + "K" * comp[1] + "G" * comp[2])
        rng.shuffle(s)
        out.append("".join(s))
    # no neutral residue, very few residues of one sign (the minority block must slide through all positions)
    for big, small in ((16, 1), (14, 2), (26, 3), (12, 1)):
        for a, b in (("R", "E"), ("D", "K")):
            s = list(a * big + b * small)
            rng.shuffle(s)
            out.append("".join(s))
            out.append(a * (big // 2) + b * small + a * (big - big // 2))
    out.append("KKKKEEEE")
    # long chains without any charged residue, one charged residue in a long chain
    out += [("GSQ" * 120)[:300], "N" * 257, ("GSQ" * 120)[:299] + "K"]
    out.append("K" + "E" * 18 + "G")
    out.append("E" * 9 + "K" + "E" * 9 + "G")
    out += ["Q" * 190 + "K" + "N" * 9, "S" * 100 + "E" + "G" * 180 + "K" + "Q" * 99]
    return [s[:maxn] for s in out]


def judge_traces(ctx, trs, need_sqrt=0, owns_k1=False):
    """Validate traces with Trace_Queries; turn rejections into violations and known findings."""
    from . import traces
    verdicts, known = traces.validate(ctx, "Trace_Queries", trs, {"sqrt": traces.sqrt_table(need_sqrt)})
    bytid = {t["tid"]: t for t in trs}
    for tid, ev, kid in known:
        if not owns_k1:
            continue    # a conforming reply that is out of range is finding K1 of C01; other properties only need conformance
        t = bytid[tid]
        ctx.known.append((kid.split(":")[1], "%s on %s" % (t["ev"][ev - 1]["q"], "".join(t["seq"])[:60])))
    for tr in trs:
        v = verdicts[tr["tid"]]
        ctx.traces += 1
        if v[0] == "reject":
            e = tr["ev"][v[1] - 1]
            ctx.violation(v[2], {"seq": "".join(tr["seq"]), "after": tr.get("after"), "event": e["q"],
                                 "args": {k: e[k] for k in e if k not in ("q", "r")}, "reply_fx": e.get("r")},
                          expected="reply matches the specification (Trace_Queries, 1e-9)", actual="trace rejected by TLC at event %d" % v[1])
        else:
            ctx.nontrivial.add("".join(tr["seq"]))
    return verdicts
