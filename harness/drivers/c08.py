"""C08  diagram-of-states region is total and follows the FCR/NCPR thresholds."""
import os
import subprocess
import shutil

from .. import common, tlc
from ..objects import warmup


def tlaps(ctx):
    """Unbounded: RegionTotal, RegionSign (Proofs.tla over Region.tla)."""
    from .. import tlaps as tp
    return tp.prove(ctx, "Proofs", ["Region"])


def run(ctx):
    lc = common.load_repo(ctx.repo)
    ctx.rule = ("(proof) TLAPS: for all naturals p+n <= N, N > 0 the coded cascade is in 1..5, equals the documented thresholds and has "
                "the stated sign; (M) the same as TLC invariants for every (p,n,z), N <= MaxN; (G) every such triple realised as a "
                "shuffled sequence with random spelling -> get_phasePlotRegion must return TLC's region. non-trivial = distinct triple")
    maxn = ctx.pick(60, 130)
    cfg = tlc.write_cfg(os.path.join(ctx.work, "MC_Region.cfg"), constants={"MaxN": maxn},
                        invariants=["CodeIsDoc", "Total", "Sign", "Emit"])
    res = tlc.run_tlc("MC_Region", cfg, ctx.work, timeout=7200, continue_=True)
    ctx.add_tlc(res)
    expect = sum((N + 1) * (N + 2) // 2 for N in range(1, maxn + 1))
    if res.errors or not res.completed or res.distinct != expect or len(res.recs) != expect:
        raise tlc.MachineryError("MC_Region failed (%d states, %d recs, expected %d): %s" % (res.distinct, len(res.recs), expect, res.errors[:2]))
    for v in res.violated:
        ctx.violation("model:" + v, {"module": "MC_Region"})
    ctx.exhaustive = True
    proved = tlaps(ctx)
    ctx.extra["tlaps_obligations_proved"] = proved
    if proved == 0:
        raise tlc.MachineryError("TLAPS failed to prove RegionTotal/RegionSign: %s" % ctx.notes[-1:])
    byregion = {}
    os.makedirs(os.path.join(common.VERIF, ".work", "objfiles"), exist_ok=True)
    scratch = os.path.join(common.VERIF, ".work", "objfiles", "scan-%d.fasta" % os.getpid())
    for rec in res.recs:
        p, n, N = rec["p"], rec["n"], rec["N"]
        x = [1] * p + [-1] * n + [0] * (N - p - n)
        ctx.rng.shuffle(x)
        seq = common.spell(x, ctx.rng)
        text = seq
        if ctx.rng.random() < 0.2:
            # normalisation is part of the API: lower case and whitespace do not count as residues
            text = "".join((ctx.rng.choice([" ", "\n", "\t", "\u00a0", "\u2009", "\u3000"]) if ctx.rng.random() < 0.15 else "") + (c.lower() if ctx.rng.random() < 0.5 else c) for c in seq) + ctx.rng.choice(["", "\n", "  "])
        if ctx.rng.random() < 0.03:
            # the sequence read from a scratch file that is overwritten for one composition after another (often the same size)
            with open(scratch, "w") as f:
                f.write(">query\n" + seq + "\n")
            out = common.call(lambda: lc.SP(sequenceFile=scratch).get_phasePlotRegion())
        elif ctx.evaluations % 60 == 5:
            # an object that has already answered other questions (profiles, patterning, phosphosites, plots, backend moves: the
            # warm-up scenarios take turns): the region is still the one its residues imply
            def asked_before():
                o_ = lc.SP(text)
                warmup(o_, ctx.rng, n=2)
                return o_.get_phasePlotRegion()
            out = common.call(asked_before, limit=300)
        else:
            out = common.call(lambda: lc.SP(text).get_phasePlotRegion())
        ctx.evaluations += 1
        ctx.traces += 1
        if out[0] != "ok" or isinstance(out[1], bool) or not common.is_number(out[1]) or out[1] != rec["region"]:
            ctx.violation("region", {"p": p, "n": n, "N": N, "seq": text}, expected=rec["region"], actual=out)
        ctx.nontrivial.add((p, n, N))
        byregion[rec["region"]] = byregion.get(rec["region"], 0) + 1
        if 20 * (p + n) == 7 * N and len(ctx.samples) < 3:
            ctx.sample({"p": p, "n": n, "N": N, "region": rec["region"], "note": "FCR = 7/20 boundary"})
    # beyond the enumerated bound: compositions right next to the thresholds for lengths of one to a few thousand residues
    from .. import traces
    trs = []
    exact_only = list(range(140, 1000, 20))            # every length up to 1000 at which FCR = 7/20 and 1/4 are attainable exactly
    for N in exact_only + [1000, 1003, 1017, 2000, 2999, 5001][:ctx.pick(5, 6)]:
        cands = set()
        if N in exact_only:
            k = (7 * N) // 20
            cands = {(k, 0), (k // 2, k - k // 2), (1, k - 1), (N // 4, 0), (k + 3, 3), (3, k + 3)}
            for p, n in sorted(cands):
                x = [1] * p + [-1] * n + [0] * (N - p - n)
                ctx.rng.shuffle(x)
                seq = common.spell(x, ctx.rng)
                out = common.call(lambda: lc.SP(seq).get_phasePlotRegion(), limit=120)
                ctx.evaluations += 1
                if out[0] != "ok" or not common.is_number(out[1]):
                    ctx.violation("region", {"p": p, "n": n, "N": N, "seq": seq[:40] + "..."}, expected="1..5", actual=out)
                    continue
                trs.append({"tid": len(trs) + 1, "seq": list(seq), "ev": [{"q": "region", "r": common.fx(out[1])}], "pnN": (p, n, N)})
            continue
        for t_ in (N // 4, (7 * N) // 20):
            for d in (-1, 0, 1, 2):
                k = t_ + d
                if 0 <= k <= N:
                    cands.add((k, 0)); cands.add((k // 2, k - k // 2)); cands.add((k - 1, 1) if k >= 1 else (k, 0))
        for d in (-1, 0, 1, 2):
            diff = (7 * N) // 20 + d
            for minority in (1, 100, N // 5):
                if diff + 2 * minority <= N:
                    cands.add((diff + minority, minority)); cands.add((minority, diff + minority))
        for p, n in sorted(cands):
            x = [1] * p + [-1] * n + [0] * (N - p - n)
            ctx.rng.shuffle(x)
            seq = common.spell(x, ctx.rng)
            out = common.call(lambda: lc.SP(seq).get_phasePlotRegion(), limit=120)
            ctx.evaluations += 1
            if out[0] != "ok" or not common.is_number(out[1]):
                ctx.violation("region", {"p": p, "n": n, "N": N, "seq": seq[:40] + "..."}, expected="1..5", actual=out)
                continue
            trs.append({"tid": len(trs) + 1, "seq": list(seq), "ev": [{"q": "region", "r": common.fx(out[1])}], "pnN": (p, n, N)})
    verdicts, _ = traces.validate(ctx, "Trace_Queries", trs, {"sqrt": [], "ent": []})
    for tr in trs:
        ctx.traces += 1
        if verdicts[tr["tid"]][0] == "reject":
            p, n, N = tr["pnN"]
            ctx.violation("region", {"p": p, "n": n, "N": N, "seq": "".join(tr["seq"])[:40] + "..."}, expected="the documented thresholds (TLC)", actual="rejected")
    ctx.extra["cases_per_region"] = {str(k): v for k, v in sorted(byregion.items())}
    ctx.sample({"p": 3, "n": 2, "N": 20, "region": 2})
    ctx.assumptions += ["the region factors through (p, n, N): one random arrangement/spelling per triple",
                        "TLAPS back ends (SMT) trusted for the unbounded lemma; TLC re-checks it on the bounded domain"]


def replay(ctx, rec):
    lc = common.load_repo(ctx.repo)
    c = rec["case"]
    out = common.call(lambda: lc.SP(c["seq"]).get_phasePlotRegion())
    print("p,n,N =", c["p"], c["n"], c["N"], "seq", c["seq"], "expected region", rec["expected"], "actual", out)
    if out[0] != "ok" or out[1] != rec["expected"]:
        ctx.violation("region", c, expected=rec["expected"], actual=out)
