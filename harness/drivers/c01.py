"""C01  kappa = delta/delta-max, in [0,1], -1 only when undefined."""
from fractions import Fraction

from .. import common, patterning
from ..objects import warmup, make_object

TOL = Fraction(1, 10**9)


def reply_relations(ctx, seq, k, d, m, exact, hist=None):
    """The statement, clause by clause, on the three replies (exact = (delta, dmax, kappa) of the spec or None)."""
    case = {"seq": seq, "after": hist, "kappa": k, "delta": d, "deltaMax": m}
    if not all(common.is_number(v) for v in (k, d, m)):
        ctx.violation("reply-not-a-number", case)
        return
    kf, df, mf = Fraction(float(k)), Fraction(float(d)), Fraction(float(m))
    if (kf == -1) != (mf == 0):
        ctx.violation("kappa-sentinel", case, expected="-1 exactly when get_deltaMax() is 0")
        return
    if mf != 0:
        raw = df / mf
        clamped = Fraction(1) if 1 < raw < Fraction(11, 10) else raw
        near = abs(raw - 1) <= TOL or abs(raw - Fraction(11, 10)) <= TOL
        if not (common.close(k, clamped) or (near and (common.close(k, 1) or common.close(k, raw)))):
            ctx.violation("kappa-ratio", case, expected=float(clamped))
            return
    if exact is not None:
        sd, sm, sk = exact
        if not common.close(k, sk):
            ctx.violation("kappa-value", case, expected=sk)
            return
    if not (kf == -1 or -TOL <= kf <= 1 + TOL):
        # out of range: finding K1 only if all three replies are the specification's values
        if exact is not None and common.close(d, exact[0]) and common.close(m, exact[1]) and common.close(k, exact[2]) \
                and exact[2] >= Fraction(11, 10):
            ctx.known.append(("K1", "kappa=%.4f for %s" % (float(k), seq)))
        else:
            ctx.violation("kappa-range", case, expected="-1 or within [0,1]")


def run(ctx):
    lc = common.load_repo(ctx.repo)
    ctx.rule = ("(M) every charge pattern up to MaxLen as a TLC state: SentinelIffNoVariance, KappaWellDefined, KappaRangeOrK1 "
                "(out of range only through the documented family's weakness = finding K1); (G) every state replayed into "
                "get_kappa/get_delta/get_deltaMax, checked clause by clause against TLC's exact values; (V) random and "
                "strongly skewed long sequences, some after a random call history, judged by TLC (Trace_Queries). "
                "non-trivial = distinct pattern/sequence with delta-max > 0")
    maxlen = ctx.pick(8, 10)
    res = patterning.mc_patterning(ctx, maxlen, ["C01"], checkdef=False)
    ctx.exhaustive = True
    nk1 = 0
    for rec in res.recs:
        exact = patterning.exact_of(rec)
        seq = common.spell(rec["x"], ctx.rng)
        o = lc.SP(seq)
        order = ctx.rng.choice([0, 1, 2])
        outs = {}
        for name in (["get_kappa", "get_delta", "get_deltaMax"], ["get_deltaMax", "get_kappa", "get_delta"],
                     ["get_delta", "get_deltaMax", "get_kappa"])[order]:
            outs[name] = common.call(getattr(o, name))
        ctx.evaluations += 1
        ctx.traces += 1
        if any(v[0] != "ok" for v in outs.values()):
            ctx.violation("query-failed", {"seq": seq}, actual=outs)
            continue
        before = len(ctx.known)
        reply_relations(ctx, seq, outs["get_kappa"][1], outs["get_delta"][1], outs["get_deltaMax"][1], exact)
        nk1 += len(ctx.known) - before
        if exact[1] > 0:
            ctx.nontrivial.add(tuple(rec["x"]))
        ctx.sample({"seq": seq, "kappa": float(outs["get_kappa"][1]), "spec_kappa": str(exact[2])}, 3)
    ctx.extra["k1_patterns_in_exhaustive_domain"] = nk1
    # (V)
    nseq = ctx.pick(14, 150)
    maxn = ctx.pick(150, 500)
    seqs = common.random_sequences(ctx.rng, nseq, maxn, 1) + patterning.special_sequences(ctx.rng, ctx.pick(200, 400))
    # the strata of the delta-max search (lopsided charge counts, 12..17 neutrals, neighbouring compositions of one length)
    seqs += [common.spell(patterning.arrange(c, ctx.rng), ctx.rng) for c in patterning.composition_grid(ctx.rng, ctx.pick(96, 600))]
    trs = []
    for i, s in enumerate(seqs):
        o, s, how = make_object(lc, s, ctx.rng)
        hist = ([{"made": how}] if how != "direct" else []) + (warmup(o, ctx.rng) if i % 2 else [])
        outs = [common.call(o.get_kappa), common.call(o.get_delta), common.call(o.get_deltaMax)]
        ctx.evaluations += 1
        if any(v[0] != "ok" or not common.is_number(v[1]) for v in outs):
            ctx.violation("query-failed", {"seq": s, "after": hist}, actual=outs)
            continue
        reply_relations(ctx, s, outs[0][1], outs[1][1], outs[2][1], None, hist)
        trs.append({"tid": i + 1, "seq": list(s), "after": hist,
                    "ev": [{"q": "kappa", "r": common.fx(outs[0][1])}, {"q": "delta", "r": common.fx(outs[1][1])},
                           {"q": "dmax", "r": common.fx(outs[2][1])}]})
    # the three replies in another interpreter environment (assertions disabled, another hash seed), get_kappa() asked first
    from .. import orderswap, objmodel
    items = []
    for n_, s in enumerate(seqs[:ctx.pick(40, 200)]):
        for q in ("get_kappa", "get_delta", "get_deltaMax"):
            items.append({"obj": n_, "seq": s, "q": q, "a": [], "block": n_, "drop": q == "get_deltaMax"})
    fw, rv = orderswap.run_both(ctx, items, tag="c01env")
    for it, a, b in zip(items, fw, rv):
        ctx.evaluations += 1
        if not objmodel.same_reply(a["d"], b["d"]):
            ctx.violation("kappa-value" if it["q"] == "get_kappa" else "reply-depends-on-the-interpreter-environment",
                          {"seq": it["seq"], "query": it["q"], "environment": "python -O, PYTHONHASHSEED=%d" % (4242 + ctx.seed)}, expected=a["d"][:200], actual=b["d"][:200])
    # the range clause on V traces: TLC labels out-of-range-but-conforming replies known:K1; anything else
    # out of range was already reported by reply_relations? no - without exact values it only reports range,
    # so drop those range reports that TLC explains as K1
    verdicts = patterning.judge_traces(ctx, trs, owns_k1=True)
    k1_seqs = {t.split(" on ")[1] for k, t in ctx.known if k == "K1" and " on " in t}
    ctx.violations = [v for v in ctx.violations
                      if not (v["clause"] == "kappa-range" and v["case"]["seq"][:60] in k1_seqs
                              and verdicts.get(next((t["tid"] for t in trs if "".join(t["seq"]) == v["case"]["seq"]), None), ("x",))[0] == "accept")]
    ctx.sample({"trace": {"seq": seqs[1], "ev": ["get_kappa", "get_delta", "get_deltaMax"]}})
    ctx.assumptions += ["1e-9 relative tolerance on floats; a ratio within 1e-9 of 1 or 1.1 may take either clamp branch",
                        "exhaustive up to length %d, random/special sequences up to %d residues" % (maxlen, maxn)]


def replay(ctx, rec):
    lc = common.load_repo(ctx.repo)
    from ..objects import apply_call
    c = rec["case"]
    o = lc.SP(c["seq"])
    for h in c.get("after") or []:
        apply_call(o, h)
    k, d, m = o.get_kappa(), o.get_delta(), o.get_deltaMax()
    print("seq", c["seq"], "kappa", k, "delta", d, "deltaMax", m)
    reply_relations(ctx, c["seq"], k, d, m, None, c.get("after"))
    trs = [{"tid": 1, "seq": list(c["seq"]), "ev": [{"q": "kappa", "r": common.fx(k)}, {"q": "delta", "r": common.fx(d)}, {"q": "dmax", "r": common.fx(m)}]}]
    patterning.judge_traces(ctx, trs, owns_k1=True)
