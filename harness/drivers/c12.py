"""C12  reduced alphabets implement the documented residue partitions."""
import os

from .. import common, tlc, traces

SIZES = [2, 3, 4, 5, 6, 8, 10, 11, 12, 15, 18, 20]


def reduce_call(o, size=None, ua=None):
    if ua is not None:
        out = common.call(o.get_reduced_alphabet_sequence, 20, ua)
    else:
        out = common.call(o.get_reduced_alphabet_sequence, size)
    if out[0] == "ok":
        v = out[1]
        if not (isinstance(v, tuple) and len(v) == 2 and isinstance(v[0], str) and all(isinstance(a, str) for a in v[1])):
            return ("bad", v)
        res = ("ok", v[0], list(v[1]))
        # the caller owns the returned alphabet list: editing it must not reach later calls
        try:
            if isinstance(v[1], list) and v[1]:
                del v[1][0]
                v[1].append("Z")
        except Exception:
            pass
        return res
    return out


def ua_json(ua):
    """A user alphabet as a JSON object of strings (non-string keys dropped, non-string values tagged)."""
    out = {}
    for k, v in ua.items():
        if isinstance(k, str) and k:
            out[k] = v if isinstance(v, str) and v else "?" + repr(v)
    return out


def random_user_alphabets(rng):
    """(kind, argument) pairs: valid total maps and every invalid class."""
    out = []
    for _ in range(3):
        k = rng.randint(2, 8)
        reps = rng.sample(common.AA, k)
        out.append(("valid", {a: rng.choice(reps) for a in common.AA}))
    perm = list(common.AA)
    rng.shuffle(perm)
    out.append(("valid-permutation", dict(zip(common.AA, perm))))
    out.append(("valid-swap", dict({a: a for a in common.AA}, K="E", E="K")))
    out.append(("valid-chain", dict({a: a for a in common.AA}, A="C", C="D", D="E")))
    base = {a: rng.choice("LEK") for a in common.AA}
    out.append(("valid-extra-keys", dict(base, X="L", b="E", **{"*": "K"})))
    miss = dict(base)
    del miss[rng.choice(common.AA)]
    out.append(("missing-key", miss))
    out.append(("value-not-amino-acid", dict(base, **{rng.choice(common.AA): rng.choice(["X", "B", "Z", "1", "LL"])})))
    out.append(("value-two-letters", dict(base, **{rng.choice(common.AA): rng.choice(["DE", "ST", "NQ", "ILM", "FWY", "KD", "AI"])})))
    out.append(("value-empty", dict(base, **{rng.choice(common.AA): ""})))
    out.append(("lower-case-value", dict(base, **{rng.choice(common.AA): "l"})))
    out.append(("non-string-value", dict(base, **{rng.choice(common.AA): 5})))
    out.append(("lower-case-keys-only", {a.lower(): "L" for a in common.AA}))
    return out


def run(ctx):
    lc = common.load_repo(ctx.repo)
    ctx.rule = ("(M) MC_Alphabets: for every integer size 0..25 the documented partition has exactly `size' groups covering the 20 "
                "residues disjointly; maps into own groups are idempotent homomorphisms; (G) 12 sizes x 20 residues exhaustive: the real "
                "residue map and returned alphabet judged by TLC (ImplementsPartition, representatives), sizes 0..25 accepted iff "
                "documented; (V) random sequences a, b: reduce(a+b) = reduce(a)+reduce(b), reduce twice = once, every reply judged by "
                "TLC against the partition; user alphabets of every class (valid incl. non-idempotent, extra keys, missing key, bad "
                "value, lower case, non-dict) accepted iff total-to-residues and applied residue by residue. non-trivial = distinct (size|alphabet, sequence)")
    cfg = tlc.write_cfg(os.path.join(ctx.work, "MC_Alphabets.cfg"),
                        invariants=["ExactlySizeGroups", "Covers", "Disjoint", "CanonImplements", "Idempotent", "Homomorphism",
                                    "RepresentativesCount"])
    res = tlc.run_tlc("MC_Alphabets", cfg, ctx.work, workers=4, timeout=600, continue_=True)
    ctx.add_tlc(res)
    if res.errors or not res.completed or res.distinct != 26:
        raise tlc.MachineryError("MC_Alphabets failed: %s" % (res.errors[:2] or res.stdout[-500:]))
    for v in res.violated:
        ctx.violation("model:" + v, {"module": "MC_Alphabets"})
    ctx.exhaustive = True
    trs = []
    tid = 0
    maps = {}
    all20 = "".join(common.AA)
    # (G) the real residue map of every size
    ev = []
    for size in SIZES:
        m = {}
        alph = None
        okmap = True
        for r in common.AA:
            out = reduce_call(lc.SP(r), size)
            ctx.evaluations += 1
            if out[0] != "ok" or len(out[1]) != 1:
                ctx.violation("reduce-raised", {"size": size, "seq": r}, actual=out)
                okmap = False
                continue
            m[r] = out[1]
            if alph is not None and alph != out[2]:
                ctx.violation("alphabet-representatives", {"size": size, "seq": r}, expected=alph, actual=out[2])
            alph = out[2]
            ctx.nontrivial.add((size, r))
        if okmap:
            ev.append({"q": "alphabetmap", "size": size, "map": m, "alphabet": alph})
            maps[size] = dict(m)
            whole = reduce_call(lc.SP(all20), size)
            if whole[0] != "ok" or whole[1] != "".join(m[r] for r in all20):
                ctx.violation("reduce-not-residue-by-residue", {"size": size, "seq": all20}, expected="".join(m[r] for r in all20), actual=whole)
    import numpy as np
    for size in list(range(-25, 26)) + ["8", "7", "-2", "-18", "0", np.int64(0), np.int64(10), np.int64(7), np.int64(-3), 0.0, 12.0, 13.0, 100, 256, 2 ** 31]:
        out = reduce_call(lc.SP("ACDKLW"), size)
        ctx.evaluations += 1
        ev.append({"q": "alphabetsize", "size": int(size), "exc": out[0] != "ok"})
    for size in (None, "", "abc"):
        out = reduce_call(lc.SP("ACDKLW"), size)
        ctx.evaluations += 1
        if out[0] == "ok":
            ctx.violation("alphabet-size-acceptance", {"size": repr(size)}, expected="rejected", actual=out)
    tid += 1
    trs.append({"tid": tid, "seq": list(all20), "ev": ev})
    # beyond the random bound: a sequence of more than 1000 residues against the residue maps TLC has just verified
    longseq = (common.random_sequences(ctx.rng, 1, 400, 300)[0] + "NQNQ" + all20) * 4
    for size, m in maps.items():
        out = reduce_call(lc.SP(longseq), size)
        ctx.evaluations += 1
        want = "".join(m[r] for r in longseq)
        if out[0] != "ok" or out[1] != want or sorted(out[2]) != sorted(set(m.values())):
            k = next((j for j in range(len(want)) if out[0] == "ok" and j < len(out[1]) and out[1][j] != want[j]), -1)
            ctx.violation("reduce-not-residue-by-residue", {"size": size, "length": len(longseq), "first_difference": k}, expected=want[max(0, k - 3):k + 4], actual=(out[1][max(0, k - 3):k + 4] if out[0] == "ok" else out))
    # (V)
    nseq = ctx.pick(12, 100)
    seqs = common.random_sequences(ctx.rng, 2 * nseq, ctx.pick(60, 200), 1)
    for i in range(nseq):
        a, b = seqs[2 * i], seqs[2 * i + 1]
        for size in ctx.rng.sample(SIZES, ctx.pick(4, 12)):
            ra, rb, rab = reduce_call(lc.SP(a), size), reduce_call(lc.SP(b), size), reduce_call(lc.SP(a + b), size)
            ctx.evaluations += 1
            if not all(x[0] == "ok" for x in (ra, rb, rab)):
                ctx.violation("reduce-raised", {"size": size, "a": a, "b": b}, actual=(ra, rb, rab))
                continue
            if rab[1] != ra[1] + rb[1]:
                ctx.violation("reduce-not-a-homomorphism", {"size": size, "a": a, "b": b}, expected=ra[1] + rb[1], actual=rab[1])
            rr = reduce_call(lc.SP(ra[1]), size)
            if rr[0] != "ok" or rr[1] != ra[1]:
                ctx.violation("reduce-not-idempotent", {"size": size, "seq": a}, expected=ra[1], actual=rr)
            if sorted(ra[2]) != sorted(rab[2]):
                ctx.violation("alphabet-representatives", {"size": size, "seq": a}, expected=ra[2], actual=rab[2])
            tid += 1
            trs.append({"tid": tid, "seq": list(a + b), "ev": [{"q": "reduce", "size": size, "exc": False, "rs": list(rab[1])}]})
        # user alphabets: several different ones on the same object, between predefined sizes
        oa = lc.SP(a)
        for kind, ua in random_user_alphabets(ctx.rng):
            if ctx.rng.random() < 0.3:
                reduce_call(oa, ctx.rng.choice(SIZES))
            out = reduce_call(oa, ua=ua)
            ctx.evaluations += 1
            e = {"q": "userreduce", "isdict": True, "ua": ua_json(ua), "kind": kind, "exc": out[0] != "ok", "rs": [], "alphabet": []}
            if out[0] == "ok":
                e["rs"], e["alphabet"] = list(out[1]), out[2]
            tid += 1
            trs.append({"tid": tid, "seq": list(a), "ev": [e]})
        for nd in ([("A", "A")], "ACDEFGHIKLMNPQRSTVWY", 7, (1, 2)):
            out = reduce_call(lc.SP(a), ua=nd)
            ctx.evaluations += 1
            tid += 1
            trs.append({"tid": tid, "seq": list(a), "ev": [{"q": "userreduce", "isdict": False, "ua": {"A": "A"}, "kind": "non-dict",
                                                           "exc": out[0] != "ok", "rs": [], "alphabet": []}]})
    # a value must be ONE amino-acid letter: every two-letter word over the residues (a sample in the quick tier) and some longer
    # words (group labels such as 'ST', 'RHK', 'AILM' look harmless)
    words = [a + b for a in common.AA for b in common.AA]
    if ctx.quick:
        words = ctx.rng.sample(words, 140)
    words += ["RHK", "STNQ", "AILM", "FWY", "DE ", " D", "D\n", "KR,", "ACD", "LIV", "ILV", "YWF"]
    probe = "ACDEFGHIKLMNPQRSTVWY"
    for wv in words:
        ua = {a: a for a in common.AA}
        ua[ctx.rng.choice(common.AA)] = wv
        out = reduce_call(lc.SP(probe), ua=ua)
        ctx.evaluations += 1
        tid += 1
        trs.append({"tid": tid, "seq": list(probe), "ev": [{"q": "userreduce", "isdict": True, "ua": ua_json(ua), "kind": "value-word", "exc": out[0] != "ok",
                                                           "rs": list(out[1]) if out[0] == "ok" else [], "alphabet": out[2] if out[0] == "ok" else []}]})
    verdicts, _ = traces.validate(ctx, "Trace_Queries", trs, {"sqrt": [], "ent": []})
    for tr in trs:
        v = verdicts[tr["tid"]]
        ctx.traces += 1
        if v[0] == "reject":
            e = tr["ev"][v[1] - 1]
            ctx.violation(v[2], {"seq": "".join(tr["seq"]), "event": {k: e[k] for k in e if k not in ("rs",)}, "reply": "".join(e.get("rs") or [])},
                          expected="the documented partition / acceptance rule", actual="trace rejected by TLC at event %d" % v[1])
        else:
            for e in tr["ev"]:
                ctx.nontrivial.add((e.get("size") or e.get("kind"), "".join(tr["seq"])[:40]))
    from .. import orderswap
    okua = {a_: a_ for a_ in common.AA}
    items = [{"obj": 0, "seq": all20, "q": "get_reduced_alphabet_sequence", "a": [sz]} for sz in (0, 1, 7, 9, 13, 21, -1, 2, 8, 20, "x", 2.5)]
    items += [{"obj": 0, "seq": all20, "q": "get_reduced_alphabet_sequence", "a": [20, ua_]} for ua_ in
              (dict(okua, K="X"), dict(okua, K="ST"), dict(okua, K=""), dict(okua, K="k"), {k_: v_ for k_, v_ in okua.items() if k_ != "W"}, dict(okua, K="E"), dict(okua, A="C", C="D"))]
    orderswap.env_differential(ctx, items, "alphabet-size-acceptance", "c12env")
    ctx.sample({"trace": {"seq": all20, "ev": [{"q": "alphabetmap", "size": 8, "map": trs[0]["ev"][5]["map"] if len(trs[0]["ev"]) > 5 else None}]}})
    ctx.sample({"user_alphabet_kinds": sorted({e["kind"] for t in trs for e in t["ev"] if e["q"] == "userreduce"})})
    ctx.assumptions += ["which member represents a group, and the order of the returned alphabet, are not constrained",
                        "an empty user alphabet ({}), means 'no user alphabet' (the predefined size applies)"]


def replay(ctx, rec):
    lc = common.load_repo(ctx.repo)
    c = rec["case"]
    e = c.get("event", {})
    if e.get("q") == "reduce" or "size" in c:
        size = e.get("size", c.get("size"))
        seq = c.get("seq") or c.get("a")
        out = reduce_call(lc.SP(seq), size)
        print("reduce", size, seq, "->", out)
        ev = [{"q": "reduce", "size": size, "exc": out[0] != "ok", "rs": list(out[1]) if out[0] == "ok" else []}]
        verdicts, _ = traces.validate(ctx, "Trace_Queries", [{"tid": 1, "seq": list(seq), "ev": ev}], {"sqrt": [], "ent": []})
        if verdicts[1][0] == "reject":
            ctx.violation(verdicts[1][2], c)
    else:
        print("replay of this case kind re-runs the whole check; case:", c)
        run(ctx)
