"""C20  HTML rendering shows each residue once, in order, in its palette colour."""
import os
import re

from .. import common, tlc, objmodel
from . import c15

PAL_CONSTS = {"ObjIds": "@MCObjIdsOne", "Pool": "@MCPoolPhos", "SiteArgs": "@MCSiteArgsQ", "PalArgs": "@MCPalArgs", "LegacyCache": False}
TOKEN = re.compile(r"""( )|(<br ?/?>)|<span style=["']color: ?([^"';]*);?["']>(.)</span>""", re.S)


def tokenise(html):
    """HTML string -> token list [["sp"], ["br"], ["res", colour, letter], ...] or None if it is something else."""
    if not isinstance(html, str):
        return None
    m = re.match(r'^<p[^>]*>(.*)</p>$', html, re.S)
    if not m:
        return None
    body = m.group(1)
    pos = 0
    toks = []
    while pos < len(body):
        t = TOKEN.match(body, pos)
        if not t:
            return None
        if t.group(1):
            toks.append(["sp"])
        elif t.group(2):
            toks.append(["br"])
        else:
            toks.append(["res", t.group(3), t.group(4)])
        pos = t.end()
    return toks


def same_layout(toks, want):
    """Same spaces and breaks between the same residues (the order of a space and a break at one place is the code's own)."""
    def groups(ts):
        out, cur = [], []
        for t in ts:
            if t[0] == "res":
                out.append(sorted(cur))
                cur = []
            else:
                cur.append(t[0])
        out.append(sorted(cur))
        return out
    return groups(toks) == groups(want)


def run(ctx):
    lc = common.load_repo(ctx.repo)
    defaults = objmodel.Defaults(lc)
    ctx.rule = ("(M) MC_Render: every sequence over 3 residues up to MaxLen and one sequence per length class (1, 9..11, 49..51, 100, 101, "
                "151): StripRecovers, SpacesBreaksExactly (space exactly before residues 0,10,.., break exactly before 0,50,.., nothing else), ColourIsPalette; MC_Object with every palette "
                "argument class (valid, extra key, missing key, invalid colour, wrong case): PaletteAtomic, PaletteTotal; (G) every "
                "behaviour of set_palette / render calls of length MaxHist stepped through a real object (palette compared after each "
                "step, the caller's dictionary mutated afterwards); (V) random sequences up to 300 residues with random palette series: "
                "every rendering tokenised and compared by TLC with Render(sequence, palette) of the tracked state (Trace_Object). "
                "non-trivial = distinct behaviour / accepted history")
    cfg = tlc.write_cfg(os.path.join(ctx.work, "MC_Render.cfg"), constants={"MaxLen": ctx.pick(6, 8)},
                        invariants=["StripRecovers", "SpacesBreaksExactly", "ColourIsPalette", "NothingAfterLast"])
    res = tlc.run_tlc("MC_Render", cfg, ctx.work, timeout=3600, continue_=True, tag="render")
    ctx.add_tlc(res)
    if res.errors or not res.completed or res.distinct < 1000:
        raise tlc.MachineryError("MC_Render failed: %s" % (res.errors[:2] or res.stdout[-500:]))
    for v in res.violated:
        ctx.violation("model:" + v, {"module": "MC_Render"})
    c15.model_check(ctx, True, consts=PAL_CONSTS, invariants=["PaletteTotal", "HistoryIndependent"], properties=["PaletteAtomic", "ReadOnlyFrame"])
    res = c15.histories(ctx, ctx.pick(3, 4), True, consts=PAL_CONSTS)
    ctx.exhaustive = True
    n = 0
    for rec in res.recs:
        h = rec["hist"]
        if h[0]["call"] != "construct" or not any(s["call"] == "set_palette" for s in h):
            continue
        c15.replay_history(ctx, lc, defaults, h, probes=[("html", None)])
        ctx.nontrivial.add(repr(c15.brief(h)))
        n += 1
    ctx.extra["palette_behaviours_replayed"] = n
    # (V) two live objects per trace: a palette update on one must not recolour the other
    trs = []
    for i in range(ctx.pick(25, 150)):
        objs = {}
        ev = []

        def post():
            return {"objs": [objmodel.project(objs[k]) if k in objs else {"alive": False} for k in (1, 2)], "spGrps": 0}
        for k in (1, 2):
            seq = common.random_sequences(ctx.rng, 1, ctx.pick(120, 300), 1)[0]
            if (i + k) % 5 == 0:
                seq = (seq * 40)[:ctx.rng.choice([1, 9, 10, 11, 49, 50, 51, 99, 100, 101, 150, 151])]
            if (i + k) % 4 == 0 and "C" not in seq:
                seq = seq[:len(seq) // 2] + "C" + seq[len(seq) // 2 + 1:]
            objs[k] = lc.SP(seq)
            ev.append({"kind": "construct", "obj": k, "seq": list(seq), "post": post()})
        ok = True
        for _ in range(ctx.rng.randint(2, 6)):
            k = ctx.rng.choice((1, 2))
            o = objs[k]
            if ctx.rng.random() < 0.5:
                d = c15.random_palette(ctx.rng)
                out = common.call(o.set_HTMLColorResiduePalette, d)
                j_ = c15.pal_json(d)
                d[ctx.rng.choice(common.AA)] = "white"
                ev.append({"kind": "set_palette", "obj": k, "arg": j_, "accepted": out[0] == "ok", "post": post()})
                if ctx.rng.random() < 0.5:
                    # the caller edits the dictionary it has just submitted and submits the same object again (to this or the
                    # other object): it is the contents at the time of the call that count
                    how = ctx.rng.choice(["valid", "valid", "invalid", "missing"])
                    a_ = ctx.rng.choice(common.AA)
                    if how == "valid":
                        d[a_] = ctx.rng.choice([c for c in objmodel.COLOURS if c != d.get(a_)])
                    elif how == "invalid":
                        d[a_] = ctx.rng.choice(["pink", "", "Red", 5])
                    else:
                        d.pop(a_, None)
                    k2 = ctx.rng.choice((1, 2))
                    out = common.call(objs[k2].set_HTMLColorResiduePalette, d)
                    ev.append({"kind": "set_palette", "obj": k2, "arg": c15.pal_json(d), "accepted": out[0] == "ok", "post": post()})
                k = ctx.rng.choice((1, 2))
                o = objs[k]
            html = common.call(o.get_HTMLColorString)
            ctx.evaluations += 1
            toks = tokenise(html[1]) if html[0] == "ok" else None
            if toks is None:
                ctx.violation("html-unparseable", {"seq": o.get_sequence()}, expected="<p> wrapper around spaces, <br> and coloured spans", actual=html if html[0] != "ok" else html[1][:300])
                ok = False
                break
            ev.append({"kind": "html", "obj": k, "reply": "x", "fresh": "x", "toks": toks, "post": post()})
        trs.append({"tid": i + 1, "ev": ev})
    # repetitive sequences whose 10-residue blocks repeat on the grid (homopolymers, di- and pentapeptide repeats, one block copied
    # to another line): where a space or a break goes depends on the position only, never on the block's content
    blk = ["".join(ctx.rng.choices(common.AA, k=10)) for _ in range(6)]
    reps = ["Q" * 120, "GS" * 61, "GGGGS" * 25, blk[0] + blk[1] + blk[2] + blk[3] + blk[4] + blk[1] + blk[5] + blk[0] + blk[1] * 3 + "KE",
            (blk[2] * 12)[:113], "A" * 49 + "C" + "A" * 51]
    for n_, seq in enumerate(reps):
        o_ = lc.SP(seq)
        html = common.call(o_.get_HTMLColorString)
        ctx.evaluations += 1
        toks = tokenise(html[1]) if html[0] == "ok" else None
        if toks is None:
            ctx.violation("html-unparseable", {"seq": seq}, expected="<p> wrapper around spaces, <br> and coloured spans", actual=html if html[0] != "ok" else html[1][:300])
            continue
        pr_ = objmodel.project(o_)
        trs.append({"tid": len(trs) + 1, "ev": [{"kind": "construct", "obj": 1, "seq": list(seq), "post": {"objs": [pr_, {"alive": False}], "spGrps": 0}},
                                              {"kind": "html", "obj": 1, "reply": "x", "fresh": "x", "toks": toks, "post": {"objs": [pr_, {"alive": False}], "spGrps": 0}}]})
    # every colour name next to itself: one trailing / leading control or blank character, a doubled or clipped letter, another
    # case -- exactly the 17 names are colours
    objs = {1: lc.SP("ACDEFGHIKLMNPQRSTVWY" * 2)}
    ev = [{"kind": "construct", "obj": 1, "seq": list("ACDEFGHIKLMNPQRSTVWY" * 2), "post": {"objs": [objmodel.project(objs[1]), {"alive": False}], "spGrps": 0}}]
    decos = [lambda c: c + "\n", lambda c: c + "\r", lambda c: c + "\r\n", lambda c: c + " ", lambda c: c + "\t", lambda c: "\n" + c, lambda c: " " + c,
             lambda c: c + "\n\n", lambda c: c + "\x0b", lambda c: c + "\x0c", lambda c: c + "\x00", lambda c: c + "\u2028", lambda c: c + "\u00a0",
             lambda c: c + c[-1], lambda c: c[:-1], lambda c: c.upper(), lambda c: c.capitalize(), lambda c: c + ";", lambda c: c]
    for c in (objmodel.COLOURS if not ctx.quick else ctx.rng.sample(objmodel.COLOURS, 6) + ["red"]):
        for deco in decos:
            d = {a: ctx.rng.choice(objmodel.COLOURS) for a in common.AA}
            d[ctx.rng.choice(common.AA)] = deco(c)
            out = common.call(objs[1].set_HTMLColorResiduePalette, d)
            ctx.evaluations += 1
            ev.append({"kind": "set_palette", "obj": 1, "arg": c15.pal_json(d), "accepted": out[0] == "ok", "post": {"objs": [objmodel.project(objs[1]), {"alive": False}], "spGrps": 0}})
    trs.append({"tid": len(trs) + 1, "ev": ev})
    # far beyond what TLC renders here (token lists of ten thousand entries): the same rule checked structurally
    for n_ in (8190, 8195, ctx.pick(9001, 20011)):
        seq = "".join(ctx.rng.choices(common.AA, k=n_))
        o = lc.SP(seq)
        pal = {a: ctx.rng.choice(objmodel.COLOURS) for a in common.AA}
        common.call(o.set_HTMLColorResiduePalette, dict(pal))
        html = common.call(o.get_HTMLColorString)
        ctx.evaluations += 1
        toks = tokenise(html[1]) if html[0] == "ok" else None
        want = []
        for i_, ch in enumerate(seq):
            if i_ % 50 == 0:
                want.append(["br"])
            if i_ % 10 == 0:
                want.append(["sp"])
            want.append(["res", pal[ch], ch])
        if toks is None or [t for t in toks if t[0] == "res"] != [t for t in want if t[0] == "res"]:
            k_ = -1
            if toks is not None:
                got = [t for t in toks if t[0] == "res"]
                k_ = next((j for j in range(min(len(got), n_)) if got[j] != ["res", pal[seq[j]], seq[j]]), min(len(got), n_))
            ctx.violation("long-render-residues", {"length": n_, "first_difference_at_residue": k_}, expected="every residue once, in order, in its colour", actual=None if toks is None else len(toks))
        elif not same_layout(toks, want):
            ctx.violation("long-render-layout", {"length": n_}, expected="space before residues 0,10,.. and break before 0,50,.. only", actual=len(toks))
    c15.validate_histories(ctx, trs, 2)
    from .. import orderswap
    okp = {a_: "red" for a_ in common.AA}
    items = []
    for pal_ in (dict(okp, K="pink"), dict(okp, K="red\n"), dict(okp, K="Red"), {k_: v_ for k_, v_ in okp.items() if k_ != "W"}, dict(okp, K=""), dict(okp, K=5), dict(okp, K="blue"), dict(okp, X="red")):
        items.append({"obj": 0, "seq": "ACDEFGHIKLMNPQRSTVWYKK", "q": "set_HTMLColorResiduePalette", "a": [pal_]})
        items.append({"obj": 0, "seq": "ACDEFGHIKLMNPQRSTVWYKK", "q": "get_HTMLColorString", "a": []})
    for it_ in items:
        it_["block"] = 0          # kept in this order in both processes: what is rendered depends on the palettes set before
    orderswap.env_differential(ctx, items, "palette-acceptance", "c20env")
    ctx.sample({"trace": [{"kind": e["kind"], "accepted": e.get("accepted")} for e in trs[0]["ev"]]})
    ctx.sample({"tokens": trs[0]["ev"][-1].get("toks", [])[:6]})
    defaults.reset()
    ctx.assumptions += ["the HTML is tokenised by the harness (wrapper <p ...>...</p>, ' ', <br>, <span style=\"color:X\">R</span>); anything else is reported as unparseable",
                        "colour names are compared exactly (lower case)"]


def replay(ctx, rec):
    lc = common.load_repo(ctx.repo)
    c = rec["case"]
    print("case:", c)
    if "seq" in c:
        html = lc.SP(c["seq"]).get_HTMLColorString()
        print(html[:400])
    run(ctx)
