"""C09  pH-dependent charge follows Henderson-Hasselbalch; the isoelectric point neutralises the chain."""
import math
import os
from decimal import Decimal, getcontext
from fractions import Fraction

from .. import common, tlc, traces
from ..objects import warmup, make_object

PKA10 = {"C": 85, "Y": 101, "H": 65, "E": 41, "D": 39, "K": 100, "R": 125}      # only to index the 10^x table (j = 10 pH - 10 pKa)
POSR = "KRH"
GETTERS = {"FCR": "get_FCR", "NCPR": "get_NCPR", "mean_net_charge": "get_mean_net_charge", "fraction_expanding": "get_fraction_expanding"}
getcontext().prec = 60


def pow10_table(js):
    """[j, limbs(floor(10^(j/10) * 10^20))] -- TLC verifies the bracket T^10 <= 10^(j+200) < (T+1)^10."""
    out = []
    for j in sorted(js):
        target = 10 ** (j + 200)
        # integer 10th root
        lo, hi = 0, 10 ** ((j + 200) // 10 + 2)
        while lo < hi:
            mid = (lo + hi + 1) // 2
            if mid ** 10 <= target:
                lo = mid
            else:
                hi = mid - 1
        out.append([j, common.limbs(lo)])
    return out


def fractions_at(ph):
    """Trusted kernel for arbitrary pH: charge fraction of each titratable residue (60-digit decimals)."""
    d = Decimal(Fraction(float(ph)).numerator) / Decimal(Fraction(float(ph)).denominator)
    out = {}
    for r, pk in PKA10.items():
        y = (d - Decimal(pk) / 10) * Decimal(10).ln()
        y = y.exp()                      # 10^(pH - pKa)
        f = (1 / (1 + y)) if r in POSR else (y / (1 + y))
        out[r] = common.fx(float(f))
    return out


def ph_events(ctx, o, seq, phs, need, hist=None):
    ev = []
    prev = None
    for ph in phs:
        k10 = round(ph * 10)
        grid = abs(ph * 10 - k10) < 1e-12 and float(k10) / 10.0 == float(ph)
        replies = {}
        for name, g in GETTERS.items():
            out = common.call(getattr(o, g), pH=ph) if (ph * 10) % 3 == 0 else common.call(getattr(o, g), ph)
            ctx.evaluations += 1
            e = {"q": "ph", "name": name, "ph": common.fx(ph), "exc": out[0] != "ok", "grid": bool(grid), "r": common.fx(0),
                 "j": {r: int(k10 - pk) for r, pk in PKA10.items()} if grid else {r: 0 for r in PKA10},
                 "frac": fractions_at(ph) if (not grid and 0 <= ph <= 14) else {r: common.fx(0) for r in PKA10}}
            if grid:
                need.update(e["j"].values())
            if out[0] == "ok":
                if not common.is_number(out[1]):
                    ctx.violation("ph-" + name, {"seq": seq, "pH": ph, "after": hist}, expected="a number", actual=out)
                    continue
                e["r"] = common.fx(out[1])
                replies[name] = float(out[1])
            ev.append(e)
        # relations between the replies at one pH and along increasing pH
        if len(replies) == 4:
            N = len(seq)
            tit = sum(1 for c in seq if c in PKA10)
            eps = 1e-9
            if abs(replies["NCPR"]) > replies["FCR"] + eps or replies["FCR"] > tit / N + eps or replies["FCR"] < -eps:
                ctx.violation("ph-bounds", {"seq": seq, "pH": ph}, expected="|NCPR| <= FCR <= titratable/N", actual=replies)
            if abs(replies["fraction_expanding"] - (replies["FCR"] + seq.count("P") / N)) > eps:
                ctx.violation("ph-fraction_expanding", {"seq": seq, "pH": ph}, expected=replies["FCR"] + seq.count("P") / N, actual=replies["fraction_expanding"])
            if prev is not None and replies["NCPR"] > prev[1] + eps:
                ctx.violation("ph-monotone", {"seq": seq, "pH": [prev[0], ph]}, expected="NCPR(pH) never increases", actual=[prev[1], replies["NCPR"]])
            prev = (ph, replies["NCPR"])
    return ev


def pi_event(ctx, o, seq, hist=None):
    out = common.call(o.get_isoelectric_point, limit=60)
    ctx.evaluations += 1
    e = {"q": "pi", "exc": out[0] != "ok", "r": common.fx(0), "frac": {r: common.fx(0) for r in PKA10}}
    if out[0] == "ok":
        if not common.is_number(out[1]) or not math.isfinite(float(out[1])):
            ctx.violation("isoelectric-point-does-not-neutralise", {"seq": seq, "after": hist}, expected="a pH", actual=out)
            return None
        e["r"] = common.fx(out[1])
        e["frac"] = fractions_at(float(out[1]))
    return e


def run(ctx):
    lc = common.load_repo(ctx.repo)
    ctx.rule = ("(M) MC_PI: the isoelectric-point bisection (bracket widened every 20 iterations) as a state machine against every monotone "
                "three-zone sign oracle on a 1/16 pH grid over [-2,18]: NeverRaises, ResultInZone, WidensOnlyWhenOutside, Terminates "
                "(fairness); (G) pH on the 0.1 grid 0..14 x the 20 single residues and extreme compositions: get_FCR/NCPR/"
                "mean_net_charge/fraction_expanding(pH) judged by TLC as Henderson-Hasselbalch sums over a 10^x table whose entries TLC "
                "verifies by T^10 <= 10^j < (T+1)^10; pH just outside [0,14] must raise; (V) random sequences x random pH (trusted "
                "60-digit kernel), monotone NCPR along sorted pH, |NCPR| <= FCR <= titratable/N, FER = FCR + P/N; get_isoelectric_point "
                "terminates and neutralises (|mean charge per titratable residue| <= 0.02; 7.0 when nothing titrates). non-trivial = "
                "distinct (sequence, pH)")
    cfg = tlc.write_cfg(os.path.join(ctx.work, "MC_PI.cfg"), spec="FairSpec", constants={"Widths": set(ctx.pick([1, 2, 16, 48], [1, 2, 3, 5, 8, 16, 32, 48, 96]))},
                        invariants=["NeverRaises", "ResultInZone", "WidensOnlyWhenOutside", "FewWidenings"], properties=["Terminates"])
    res = tlc.run_tlc("MC_PI", cfg, ctx.work, timeout=7200, continue_=True)
    ctx.add_tlc(res)
    if res.errors or not res.completed or res.distinct < 5000:
        raise tlc.MachineryError("MC_PI failed: %s" % (res.errors[:2] or res.stdout[-600:]))
    for v in res.violated:
        ctx.violation("model:" + v, {"module": "MC_PI"})
    ctx.exhaustive = True
    need = set()
    trs = []
    grid = [k / 10.0 for k in range(0, 141, ctx.pick(5, 1))] + [0.0, 14.0, 7.4, 0.1, 13.9, -0.0, 0, 14, 7]
    outside = [-0.1, -1e-9, 14.000001, 14.1, 15, -3]
    extremes = list(common.AA) + ["KKKKKKKK", "RRRRRR", "DDDDEEEE", "HHHH", "CYCY", "GGSGQN", "R", "K", "D", "KRHDECY", "PPPPKE", "RRRRH", "GRGRGRGSPRQ", "RRK"]
    mids = [7.0, 3.5, 10.5, 1.75, 5.25, 8.75, 12.25, 4.375, 9.625]        # pH values the pI bisection visits first
    pairs = []
    for a in range(1, 11):
        for b in range(1, 11):
            for A in range(20, 61):
                for B in range(20, 61):
                    if a * B != A * b and round(a / (a + b), 3) == round(A / (A + B), 3) and abs(a / (a + b) - 0.5) > 0.02:
                        pairs.append((a, b, A, B))
    ctx.rng.shuffle(pairs)
    for a, b, A, B in pairs[:ctx.pick(6, 30)]:
        small, large = list("K" * a + "E" * b), list("K" * A + "E" * B)
        ctx.rng.shuffle(small); ctx.rng.shuffle(large)
        extremes += ["".join(small), "".join(large)] if ctx.rng.random() < 0.5 else ["".join(large), "".join(small)]
    for n_, s in enumerate(extremes):
        o = lc.SP(s)
        first = pi_event(ctx, o, s) if n_ % 2 else None            # the search before or after the pH queries
        ev = ([first] if first else []) + ph_events(ctx, o, s, sorted(set(grid + mids)), need) + ph_events(ctx, o, s, outside, need)
        p = pi_event(ctx, o, s)
        if p:
            ev.append(p)
        trs.append({"tid": len(trs) + 1, "seq": list(s), "ev": ev})
        for ph in grid:
            ctx.nontrivial.add((s, ph))
    # one object asked more than 500 distinct (pH, quantity) questions, then the same again (anything it remembers must stay right)
    s = common.random_sequences(ctx.rng, 1, 60, 30)[0] + "KRHDECY"
    o = lc.SP(s)
    fine = [k / 10.0 for k in range(0, 141)]
    trs.append({"tid": len(trs) + 1, "seq": list(s), "after": [{"made": "the 0.1 grid read twice"}],
                "ev": ph_events(ctx, o, s, fine, need) + ph_events(ctx, o, s, fine, need)})
    # long chains of nearly the same titratable composition in one process (a wild type and point variants)
    for rep in range(ctx.pick(24, 60)):
        wt_ = list(common.random_sequences(ctx.rng, 1, 260, 140)[0])
        if rep % 4:
            # mostly titratable residues (a few hundred of them): a point substitution moves every fraction by less than a percent
            wts = [ctx.rng.uniform(0.2, 3) for _ in "KRHDECY"]
            wt_ = ctx.rng.choices("KRHDECY", weights=wts, k=ctx.rng.randint(250, 600)) + list("GSPQ" * ctx.rng.randint(0, 10))
            ctx.rng.shuffle(wt_)
        tit = [i for i, c in enumerate(wt_) if c in PKA10]
        for var in range(ctx.pick(20, 30)):
            v = list(wt_)
            for i in ctx.rng.sample(tit, min(len(tit), ctx.rng.randint(1, 3))) if var else []:
                v[i] = ctx.rng.choice([c for c in "KRHDECYGS" if c != v[i]])
            v = "".join(v)
            p = pi_event(ctx, lc.SP(v), v)
            if p:
                trs.append({"tid": len(trs) + 1, "seq": list(v), "after": [{"made": "variant %d of a %d-residue chain" % (var, len(v))}], "ev": [p]})
    # the search asked again and again on one object (chains that are still positive at pH 14 make it widen its bracket every time)
    for s in ["RRRRRRRRR", "RSRSRSRSRS", "GRKKRRQRRRPPQ", "PRRRRSSSRPVRRRRRPRVSRRRRRRGGRRRR", "DDDDDD", "KEKE", "HHHH"]:
        o = lc.SP(s)
        ev = []
        for _ in range(ctx.pick(14, 40)):
            p = pi_event(ctx, o, s)
            if p is None:
                break
            ev.append(p)
        trs.append({"tid": len(trs) + 1, "seq": list(s), "after": [{"made": "get_isoelectric_point() %d times on one object" % len(ev)}], "ev": ev})
    from .. import orderswap
    sq_ = common.random_sequences(ctx.rng, 1, 40, 15)[0] + "KRHDECY"
    orderswap.env_differential(ctx, [{"obj": 0, "seq": sq_, "q": q_, "a": [ph_]} for q_ in ("get_FCR", "get_NCPR", "get_mean_net_charge", "get_fraction_expanding")
                                     for ph_ in (-0.1, 14.1, 15, -3, 0, 14, 7.4)] + [{"obj": 0, "seq": sq_, "q": "get_isoelectric_point", "a": []}],
                               "pH-outside-[0,14]-accepted", "c09env")
    seqs = common.random_sequences(ctx.rng, ctx.pick(20, 150), ctx.pick(100, 400), 1)
    for i, s in enumerate(seqs):
        o, s, how = make_object(lc, s, ctx.rng)
        hist = ([{"made": how}] if how != "direct" else []) + (warmup(o, ctx.rng) if i % 2 else [])
        phs = sorted([ctx.rng.uniform(0, 14) for _ in range(ctx.pick(4, 8))] + [ctx.rng.choice(grid), 0, 14] + ctx.rng.sample(mids, 3))
        first = pi_event(ctx, o, s, hist) if i % 3 == 0 else None
        ev = ([first] if first else []) + ph_events(ctx, o, s, phs, need, hist) + ph_events(ctx, o, s, [ctx.rng.choice(outside)], need, hist)
        p = pi_event(ctx, o, s, hist)
        if p:
            ev.append(p)
        trs.append({"tid": len(trs) + 1, "seq": list(s), "after": hist, "ev": ev})
        for ph in phs:
            ctx.nontrivial.add((s[:40], round(ph, 6)))
    verdicts, _ = traces.validate(ctx, "Trace_Queries", trs, {"sqrt": [], "ent": [], "pow10": pow10_table(need) or [[0, common.limbs(10 ** 20)]]})
    for tr in trs:
        v = verdicts[tr["tid"]]
        ctx.traces += 1
        if v[0] == "reject":
            e = tr["ev"][v[1] - 1]
            ctx.violation(v[2], {"seq": "".join(tr["seq"]), "after": tr.get("after"), "query": e.get("name", e["q"]),
                                 "pH": float(common.rat(e["ph"]["s"], e["ph"]["m"], common.limbs(10 ** 15))) if "ph" in e else None,
                                 "reply": float(common.rat(e["r"]["s"], e["r"]["m"], common.limbs(10 ** 15))), "raised": e["exc"]},
                          expected="Henderson-Hasselbalch sum of the specification / neutral chain at the returned pI", actual="trace rejected by TLC at event %d" % v[1])
    ctx.sample({"trace": {"seq": extremes[20], "pH": grid[:4], "queries": sorted(GETTERS) + ["get_isoelectric_point"]}})
    ctx.extra["pow10_table_entries_verified_by_TLC"] = len(need)
    ctx.assumptions += ["10^x on the 0.1 pH grid is verified by TLC (tenth-power bracket); for arbitrary pH and at the returned pI it is computed by the harness with 60-digit decimals (trusted)",
                        "the three-zone oracle abstraction of the charge curve (monotone, zone at least 1/16 pH wide) is an assumption of MC_PI; NaN pH is out of scope"]


def replay(ctx, rec):
    lc = common.load_repo(ctx.repo)
    from ..objects import apply_call
    c = rec["case"]
    o = lc.SP(c["seq"])
    for h in c.get("after") or []:
        apply_call(o, h)
    need = set()
    ev = ph_events(ctx, o, c["seq"], [c["pH"]] if isinstance(c.get("pH"), (int, float)) else [0, 7, 14], need)
    p = pi_event(ctx, o, c["seq"])
    if p:
        ev.append(p)
    print(c["seq"], "pI", common.call(o.get_isoelectric_point))
    verdicts, _ = traces.validate(ctx, "Trace_Queries", [{"tid": 1, "seq": list(c["seq"]), "ev": ev}],
                                  {"sqrt": [], "ent": [], "pow10": pow10_table(need) or [[0, common.limbs(10 ** 20)]]})
    if verdicts[1][0] == "reject":
        ctx.violation(verdicts[1][2], c)
