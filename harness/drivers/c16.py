"""C16  phosphosites are exactly the requested in-range S/T/Y; derived values follow."""
from .. import common, tlc, objmodel, patterning
from . import c15

PHOS_CONSTS = {"ObjIds": "@MCObjIdsOne", "Pool": "@MCPoolPhos", "SiteArgs": "@MCSiteArgsPhos", "PalArgs": "@MCPalArgsNone", "LegacyCache": False}
PROBES = [("phospho", None), ("kappaPhos", None), ("pure", "get_sequence"), ("pure", "get_all_phosphorylatable_sites")]


def derived_events(ctx, o, case):
    """get_phosphosites() and everything derived from it, as Trace_Queries events."""
    sites = common.call(o.get_phosphosites)
    ctx.evaluations += 1
    if sites[0] != "ok" or not isinstance(sites[1], list) or any(not isinstance(x, int) or isinstance(x, bool) for x in sites[1]):
        ctx.violation("phosphosites-reply", case, expected="a list of integers", actual=sites)
        return None
    s = list(sites[1])
    # the caller owns the returned list: scribbling on it must not reach the object
    objmodel.scribble(sites[1])
    again = common.call(o.get_phosphosites)
    if again[0] != "ok" or again[1] != s:
        ctx.violation("phosphosites-reply", case, expected=s, actual=again)
        return None
    ev = []
    ps = common.call(o.get_phosphosequence)
    if ps[0] != "ok" or not isinstance(ps[1], str):
        ctx.violation("phosphosequence", case, actual=ps)
    else:
        ev.append({"q": "phosphoseq", "sites": s, "rs": list(ps[1])})
    st = common.call(o.get_all_phosphorylatable_sites)
    if st[0] != "ok" or not isinstance(st[1], list):
        ctx.violation("phosphorylatable-sites", case, actual=st)
    else:
        ev.append({"q": "stysites", "sites": s, "rs": [int(x) for x in st[1]]})
    kp = common.call(o.get_kappa_after_phosphorylation)
    if kp[0] != "ok" or not common.is_number(kp[1]):
        ctx.violation("kappa-after-phosphorylation", case, actual=kp)
    else:
        ev.append({"q": "kappaphos", "sites": s, "r": common.fx(kp[1])})
    if len(s) <= 5:
        d = common.call(o.get_full_phosphostatus_kappa_distribution)
        ok = d[0] == "ok" and isinstance(d[1], list) and all(isinstance(t, tuple) and len(t) == 7 and all(common.is_number(x) for x in t[:6]) for t in d[1])
        if not ok:
            ctx.violation("distribution-values", case, expected="list of 7-tuples", actual=d)
        else:
            try:
                ents = [{"kappa": common.fx(t[0]), "fplus": common.fx(t[1]), "fminus": common.fx(t[2]), "fcr": common.fx(t[3]),
                         "ncpr": common.fx(t[4]), "hyd": common.fx(t[5]), "status": [int(b) for b in t[6]]} for t in d[1]]
                ev.append({"q": "phosdist", "sites": s, "entries": ents})
            except Exception as ex:
                ctx.violation("distribution-order", case, expected="status tuple of 0/1", actual=repr(ex))
    return ev


def run(ctx):
    lc = common.load_repo(ctx.repo)
    defaults = objmodel.Defaults(lc)
    ctx.rule = ("(M) the object state machine instantiated with sequences SAKTY / GSTYSG and every set_phosphosites argument of up to two "
                "positions in -2..8 plus clear: SitesValid, NoRepeats, SetSemantics (the coded fold does exactly what the documentation "
                "allows one call to do: earlier sites keep their place, exactly the valid requested ones are added once, in first-set "
                "order), ClearEmpties, SeqImmutable; (G) every behaviour of length MaxHist stepped through a real object, sites compared "
                "after each step; for every reached (sequence, sites) the phosphosequence, kappa after phosphorylation, the 2^k-entry "
                "distribution (order, status bits, six values) and the S/T/Y list are judged by TLC (Trace_Queries); (V) random sequences "
                "and random set/clear series with arbitrary integers (int, list, tuple forms) validated by TLC (Trace_Object). "
                "non-trivial = distinct (sequence, sites) / accepted history")
    c15.model_check(ctx, True, consts=PHOS_CONSTS, invariants=["SitesValid", "NoRepeats", "CacheSound", "HistoryIndependent"],
                    properties=["SetSemantics", "ClearEmpties", "SeqImmutable", "SitesOnlyGrowOrClear", "ReadOnlyFrame"])
    hc = dict(PHOS_CONSTS, SiteArgs="@MCSiteArgsPhosH")
    res = c15.histories(ctx, 4, True, consts=hc)
    ctx.exhaustive = True
    trs = []
    seen = {}

    def after(objs, step, sofar):
        o = objs[1]
        key = (o.get_sequence(), tuple(o.SeqObj.phosphosites))
        if key in seen:
            return
        ev = derived_events(ctx, o, {"history": sofar})
        seen[key] = True
        if ev:
            trs.append({"tid": len(trs) + 1, "seq": list(key[0]), "ev": ev, "history": sofar})
            ctx.nontrivial.add(key)
    for rec in res.recs:
        if rec["hist"][0]["call"] != "construct":
            continue
        # skip behaviours that only repeat queries (the C15 check owns those); keep those with a mutator
        if not any(s["call"] in ("set_phosphosites", "clear_phosphosites") for s in rec["hist"]):
            continue
        c15.replay_history(ctx, lc, defaults, rec["hist"], probes=PROBES, after_step=after)
    ctx.sample({"behaviour": c15.brief(res.recs[len(res.recs) // 3]["hist"])})
    # (V) random series on random sequences
    hist_trs = []
    for i in range(ctx.pick(20, 150)):
        seq = common.random_sequences(ctx.rng, 1, ctx.pick(30, 60), 3)[0]
        if ctx.rng.random() < 0.6:
            seq = "".join(ctx.rng.choice("STYKEG") if ctx.rng.random() < 0.5 else c for c in seq)
        o0 = lc.SP(seq)
        N = len(seq)
        # every third series goes through several handles on one object (a second SequenceParameters around the same backend
        # sequence, a shallow copy): whichever handle a call is made through, it is the one object's state that is set and read
        handles = [o0]
        if i % 3 == 1:
            import copy
            h2 = common.call(lambda: lc.SP(SeqObj=o0.SeqObj))
            h3 = common.call(copy.copy, o0)
            handles += [h[1] for h in (h2, h3) if h[0] == "ok" and hasattr(h[1], "get_phosphosites")]

        class _Routed:          # each call goes through one of the handles
            def __getattr__(self, name):
                return getattr(ctx.rng.choice(handles) if len(handles) > 1 else o0, name)
        o = _Routed() if len(handles) > 1 else o0

        def interleaved(tag):
            # the derived values are asked for in the middle of the series as well (and again at its end)
            if len(o0.get_phosphosites()) <= 3:
                dv_ = derived_events(ctx, o, {"seq": seq, "sites": o0.get_phosphosites(), "handles": len(handles), "when": tag})
                if dv_:
                    trs.append({"tid": len(trs) + 1, "seq": list(seq), "ev": dv_, "history": "random series (%s, %d handle(s))" % (tag, len(handles))})
        ev = [{"kind": "construct", "obj": 1, "seq": list(seq), "post": {"objs": [objmodel.project(o0)], "spGrps": 0}}]
        favourites = [ctx.rng.randint(1, N) for _ in range(3)] + [k + 1 for k, ch in enumerate(seq) if ch in "STY"][:4]
        for _ in range(ctx.rng.randint(3, 9)):
            r = ctx.rng.random()
            if r < 0.6:
                # positions are re-requested (also after a clear): a small set of favourites plus arbitrary integers
                arg = [ctx.rng.choice(favourites + [ctx.rng.randint(-3, N + 3), 0, N, N + 1, -1, 1]) for _ in range(ctx.rng.randint(0, 5))]
                form = ctx.rng.choice(["list", "tuple", "int", "np-list", "np-array", "generator", "iterator", "map", "range-like", "set-like"])
                if form == "int" and arg:
                    arg = arg[:1]
                    out = common.call(o.set_phosphosites, arg[0])
                elif form == "tuple":
                    out = common.call(o.set_phosphosites, tuple(arg))
                elif form == "np-list":
                    import numpy as np
                    out = common.call(o.set_phosphosites, [np.int64(x) for x in arg])
                elif form == "np-array":
                    import numpy as np
                    out = common.call(o.set_phosphosites, np.array(arg, dtype=int))
                elif form == "generator":           # positions that can be walked through once only
                    out = common.call(o.set_phosphosites, (x for x in list(arg)))
                elif form == "iterator":
                    out = common.call(o.set_phosphosites, iter(list(arg)))
                elif form == "map":
                    out = common.call(o.set_phosphosites, map(int, [str(x) for x in arg]))
                elif form == "range-like":
                    lo_ = ctx.rng.randint(-1, N)
                    arg = list(range(lo_, lo_ + ctx.rng.randint(0, 4)))
                    out = common.call(o.set_phosphosites, range(arg[0], arg[-1] + 1) if arg else range(0))
                elif form == "set-like":
                    arg = sorted(set(arg))
                    out = common.call(o.set_phosphosites, dict.fromkeys(arg).keys())
                else:
                    out = common.call(o.set_phosphosites, list(arg))
                if out[0] != "ok":
                    ctx.violation("set-phosphosites-raised", {"seq": seq, "arg": arg, "form": form}, actual=out)
                ev.append({"kind": "set_phosphosites", "obj": 1, "arg": arg, "post": {"objs": [objmodel.project(o0)], "spGrps": 0}})
                if ctx.rng.random() < 0.25:
                    interleaved("after a set")
            elif r < 0.8:
                common.call(o.clear_phosphosites)
                ev.append({"kind": "clear_phosphosites", "obj": 1, "post": {"objs": [objmodel.project(o0)], "spGrps": 0}})
            else:
                s = common.call(o.get_phosphosites)
                ps = common.call(o.get_phosphosequence)
                e = {"kind": "phospho", "obj": 1, "reply": "x", "fresh": "x", "post": {"objs": [objmodel.project(o0)], "spGrps": 0}}
                if s[0] == "ok" and isinstance(s[1], list) and ps[0] == "ok" and isinstance(ps[1], str):
                    e["sites"] = [int(x) for x in s[1]]
                    e["pseq"] = list(ps[1])
                else:
                    ctx.violation("phosphosites-reply", {"seq": seq}, actual=(s, ps))
                ev.append(e)
            ctx.evaluations += 1
        if len(o.get_phosphosites()) <= 4:
            dv = derived_events(ctx, o, {"seq": seq, "sites": o.get_phosphosites()})
            if dv:
                trs.append({"tid": len(trs) + 1, "seq": list(seq), "ev": dv, "history": "random series"})
        # ... then cleared and another set of as many sites as before, each state asked for its derived values
        sty = [k + 1 for k, ch in enumerate(seq) if ch in "STY"]
        if len(sty) >= 2 and i % 2 == 0:
            k_ = ctx.rng.randint(1, min(2, len(sty) - 1))
            s1 = ctx.rng.sample(sty, k_)
            s2 = ctx.rng.sample([x for x in sty if x not in s1], min(k_, len(sty) - k_))
            for step_, sites_ in (("first set", s1), ("same number of other sites after a clear", s2)):
                common.call(o.clear_phosphosites)
                ev.append({"kind": "clear_phosphosites", "obj": 1, "post": {"objs": [objmodel.project(o0)], "spGrps": 0}})
                common.call(o.set_phosphosites, list(sites_))
                ev.append({"kind": "set_phosphosites", "obj": 1, "arg": list(sites_), "post": {"objs": [objmodel.project(o0)], "spGrps": 0}})
                interleaved(step_)
        hist_trs.append({"tid": i + 1, "ev": ev})
    # beyond the bound: nine sites (512 phosphostates) against fresh objects of the substituted sequences
    seq9 = "".join(ctx.rng.choice("KEGQ") + ctx.rng.choice("STY") for _ in range(12))
    o9 = lc.SP(seq9)
    sites9 = ctx.rng.sample([i + 1 for i, ch in enumerate(seq9) if ch in "STY"], 9)
    common.call(o9.set_phosphosites, sites9)
    d9 = common.call(o9.get_full_phosphostatus_kappa_distribution, limit=600)
    ctx.evaluations += 1
    if d9[0] != "ok" or len(d9[1]) != 512:
        ctx.violation("distribution-size", {"seq": seq9, "sites": sites9}, expected=512, actual=d9[:2] if d9[0] != "ok" else len(d9[1]))
    else:
        for k in [0, 1, 2, 255, 256, 257, 510, 511] + ctx.rng.sample(range(512), 24):
            bits = [(k >> (8 - j)) & 1 for j in range(9)]
            sub = list(seq9)
            for bsite, bit in zip(sites9, bits):
                if bit:
                    sub[bsite - 1] = "E"
            ref = lc.SP("".join(sub))
            t = d9[1][k]
            want = (ref.get_kappa(), ref.get_fraction_positive(), ref.get_fraction_negative(), ref.get_FCR(), ref.get_NCPR(), ref.get_mean_hydropathy())
            if [int(x) for x in t[6]] != bits:
                ctx.violation("distribution-order", {"seq": seq9, "sites": sites9, "entry": k}, expected=bits, actual=list(t[6]))
                break
            if any(not common.close(a, __import__("fractions").Fraction(float(b))) for a, b in zip(t[:6], want)):
                ctx.violation("distribution-values", {"seq": seq9, "sites": sites9, "entry": k}, expected=want, actual=t[:6])
                break
    # one request of more than 100 positions in arbitrary order
    seq150 = "".join(ctx.rng.choice("STYSTYKEG") for _ in range(220))
    o150 = lc.SP(seq150)
    req = [ctx.rng.randint(-3, 224) for _ in range(ctx.rng.randint(130, 180))]
    common.call(o150.set_phosphosites, req)
    hist_trs.append({"tid": len(hist_trs) + 1, "ev": [
        {"kind": "construct", "obj": 1, "seq": list(seq150), "post": {"objs": [objmodel.project(lc.SP(seq150))], "spGrps": 0}},
        {"kind": "set_phosphosites", "obj": 1, "arg": req, "post": {"objs": [objmodel.project(o150)], "spGrps": 0}}]})
    c15.validate_histories(ctx, hist_trs, 1)
    for t in trs:
        t["after"] = t.pop("history")
    patterning.judge_traces(ctx, trs)
    ctx.sample({"trace": {"seq": "".join(trs[-1]["seq"]), "sites": trs[-1]["ev"][0]["sites"], "ev": [e["q"] for e in trs[-1]["ev"]]}})
    defaults.reset()
    ctx.assumptions += ["numpy integer positions and non-integer positions are outside the statement",
                        "the distribution is checked for up to 5 sites (32 entries)"]


def replay(ctx, rec):
    lc = common.load_repo(ctx.repo)
    c = rec["case"]
    print("case:", c)
    if "seq" in c and "arg" in c:
        o = lc.SP(c["seq"])
        print(common.call(o.set_phosphosites, c["arg"]), o.get_phosphosites())
    run(ctx)
