"""C07  SCD = Sawle-Ghosh sequence charge decoration."""
from decimal import Decimal, getcontext
from fractions import Fraction

from .. import common, patterning
from ..objects import warmup, make_object


def scd_exact(coeffs, N):
    getcontext().prec = 50
    tot = Fraction(0)
    for d, c in enumerate(coeffs, start=1):
        if c:
            tot += c * Fraction(Decimal(d).sqrt())
    return tot / N


def run(ctx):
    lc = common.load_repo(ctx.repo)
    ctx.rule = ("(M) every charge pattern up to MaxLen as a TLC state: SCDZeroFewCharges, coefficients invariant under reversal and "
                "inversion; (G) every state replayed into get_SCD under a random spelling, expected = sum_d Coeff(d)*sqrt(d)/N with "
                "TLC's exact integer coefficients; (V) random and strongly correlated sequences up to a few hundred residues (some "
                "after a random call history) judged by TLC with a sqrt table whose bracket TLC verifies. non-trivial = pattern "
                "with at least two charged residues")
    maxlen = ctx.pick(8, 10)
    res = patterning.mc_patterning(ctx, maxlen, ["C07"], checkdef=False)
    ctx.exhaustive = True
    for rec in res.recs:
        x = rec["x"]
        seq = common.spell(x, ctx.rng)
        out = common.call(lambda: lc.SP(seq).get_SCD())
        exact = scd_exact(rec["scd"], len(x))
        ctx.evaluations += 1
        ctx.traces += 1
        if out[0] != "ok" or not common.is_number(out[1]) or not common.close(out[1], exact):
            ctx.violation("scd-value", {"seq": seq}, expected=float(exact), actual=out)
        elif sum(1 for c in x if c) >= 2:
            ctx.nontrivial.add(tuple(x))
        if sum(1 for c in x if c) < 2 and out[0] == "ok" and float(out[1]) != 0.0:
            ctx.violation("scd-nonzero-with-fewer-than-two-charges", {"seq": seq}, expected=0, actual=out)
        ctx.sample({"seq": seq, "coeffs": rec["scd"], "scd": float(exact)}, 3)
    nseq = ctx.pick(14, 120)
    maxn = ctx.pick(150, 300)
    seqs = common.random_sequences(ctx.rng, nseq, maxn, 1) + patterning.special_sequences(ctx.rng, ctx.pick(200, 300))
    # lengths 2^k and 2^k + 1 with both termini charged (an FFT-based autocorrelation wraps around exactly there)
    for n in (33, 64, 65, 129, 257)[:ctx.pick(4, 5)]:
        mid = common.random_sequences(ctx.rng, 1, n - 2, n - 2)[0]
        seqs += ["K" + mid + "E", "D" + mid + "D"]
    trs = []
    for i, s in enumerate(seqs):
        o, s, how = make_object(lc, s, ctx.rng)
        hist = ([{"made": how}] if how != "direct" else []) + (warmup(o, ctx.rng) if i % 2 else [])
        out = common.call(o.get_SCD)
        ctx.evaluations += 1
        if out[0] != "ok" or not common.is_number(out[1]):
            ctx.violation("scd-value", {"seq": s, "after": hist}, actual=out)
            continue
        trs.append({"tid": i + 1, "seq": list(s), "after": hist, "ev": [{"q": "scd", "r": common.fx(out[1])}]})
    # two sequences of more than 1000 residues with the same ends (judged by TLC like the others); in the thorough tier also the size
    # class of giant proteins (4099 and 8200+ residues: a minute of computing in the library itself)
    ends = "KEG"
    longs = []
    for rep in range(2):
        longs.append(ends + common.random_sequences(ctx.rng, 1, 1300, 1100)[0] + ends[::-1])
    if not ctx.quick:
        longs += ["".join(ctx.rng.choices("KEDRGSPQ", k=n_)) for n_ in (4099, ctx.rng.randint(8193, 8300))]
    for s in longs:
        out = common.call(lc.SP(s).get_SCD, limit=900)
        ctx.evaluations += 1
        if out[0] != "ok" or not common.is_number(out[1]):
            ctx.violation("scd-value", {"seq": s[:40] + "...", "length": len(s)}, expected="a number", actual=out)
            continue
        if len(s) <= 1500:
            trs.append({"tid": len(trs) + 1000, "seq": list(s), "after": [{"made": "%d residues" % len(s)}], "ev": [{"q": "scd", "r": common.fx(out[1])}]})
            continue
        x = common.charge_pattern(s)                 # beyond what TLC is given: the same sum in the harness (exact coefficients, sqrt table)
        idx = [(i, c) for i, c in enumerate(x) if c]
        coeffs = [0] * (len(x) - 1)
        for a in range(len(idx)):
            for b in range(a + 1, len(idx)):
                coeffs[idx[b][0] - idx[a][0] - 1] += idx[a][1] * idx[b][1]
        exact = scd_exact(coeffs, len(x))
        if not common.close(out[1], exact):
            ctx.violation("scd-value", {"seq": s[:40] + "...", "length": len(s)}, expected=float(exact), actual=out)
    patterning.judge_traces(ctx, trs, need_sqrt=max(len(s) for s in seqs + longs[:2]))
    ctx.sample({"trace": {"seq": seqs[0], "ev": ["get_SCD"]}})
    ctx.assumptions += ["sqrt(d) enters as floor(sqrt(d)*1e15) computed by the harness; TLC verifies r^2 <= d*1e30 < (r+1)^2 before use",
                        "1e-9 relative tolerance"]


def replay(ctx, rec):
    lc = common.load_repo(ctx.repo)
    from ..objects import apply_call
    c = rec["case"]
    o = lc.SP(c["seq"])
    for h in c.get("after") or []:
        apply_call(o, h)
    out = common.call(o.get_SCD)
    print(c["seq"], "after", c.get("after"), "->", out)
    if out[0] != "ok":
        ctx.violation("scd-value", c, actual=out)
        return
    patterning.judge_traces(ctx, [{"tid": 1, "seq": list(c["seq"]), "ev": [{"q": "scd", "r": common.fx(out[1])}]}], need_sqrt=len(c["seq"]))
