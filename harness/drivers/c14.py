"""C14  sequence files parse to exactly their residues."""
import os

from .. import common, tlc, traces, inputs, objmodel

OTHER = list("-_.,;:!?/\\|()[]{}@#$%^&+=~`'\"BJOUXZbjouxz")


def realise(tokens, rng):
    out = []
    for c in tokens:
        if c == 107:
            out.append(rng.choice(common.AA).lower())
        elif c == 9:
            out.append(rng.choice(["\t", "\x0b", "\x0c"]))
        elif c == 49:
            out.append(rng.choice("0123456789"))
        elif c == 45:
            out.append(rng.choice(OTHER))
        elif c == 10:
            out.append(rng.choice(["\n", "\n", "\r\n"]))
        else:
            out.append(chr(c))
    return "".join(out)


class Files:
    def __init__(self, ctx):
        self.dir = os.path.join(ctx.work, "files")
        os.makedirs(self.dir, exist_ok=True)
        self.n = 0

    def write(self, content):
        self.n += 1
        p = os.path.join(self.dir, "f%d.txt" % (self.n % 64))
        # bytes that are not UTF-8 are carried in the text as lone surrogates U+DC80..U+DCFF (surrogateescape) and written raw
        with open(p, "wb") as f:
            f.write(content.encode("utf-8", "surrogateescape"))
        return p


def parse_event(ctx, lc, files, content, battery=False):
    path = files.write(content)
    out = common.call(lambda: lc.seqfileparser.SequenceFileParser().parseSeqFile(path, True))
    ctx.evaluations += 1
    case = {"file": content}
    if out[0] == "timeout":
        ctx.violation("parse-timeout", case)
        return None
    e = {"q": "parsefile", "cps": [ord(c) for c in content], "ok": out[0] == "ok", "seq": []}
    if out[0] == "ok":
        if not isinstance(out[1], str):
            ctx.violation("file-sequence-differs", case, expected="a string", actual=out)
            return None
        e["seq"] = [ord(c) for c in out[1]]
    # the public constructors must agree with the parser
    o = common.call(lambda: lc.SP(sequenceFile=path))
    if (o[0] == "ok") != e["ok"]:
        ctx.violation("constructor-and-parser-disagree", case, expected=e["ok"], actual=o[:2])
    elif o[0] == "ok" and out[1]:
        s = common.call(o[1].get_sequence)
        if s[0] != "ok" or s[1] != out[1]:
            ctx.violation("file-object-sequence-differs", case, expected=out[1], actual=s)
        elif battery:
            ref = common.call(lc.SP, out[1])
            if ref[0] == "ok":
                a, b = inputs.battery(o[1]), inputs.battery(ref[1])
                for q in a:
                    if not objmodel.same_reply(objmodel.digest(a[q]), objmodel.digest(b[q])):
                        ctx.violation("file-object-answers-differently", dict(case, query=q), expected=b[q], actual=a[q])
                        break
            pm = common.call(lambda: lc.SPerm(sequenceFile=path).SeqObj.seq)
            if pm[0] != "ok" or pm[1] != out[1]:
                ctx.violation("permutants-file-object-sequence-differs", case, expected=out[1], actual=pm)
    return e


def layouts(seq, rng):
    """Realistic file layouts of one sequence (all must parse to exactly seq)."""
    out = []
    for _ in range(4):
        width = rng.choice([10, 60, 80, 7, 1, len(seq), len(seq) + 5])
        lines = [seq[i:i + width] for i in range(0, len(seq), width)]
        style = rng.choice(["plain", "fasta", "spaced", "numbered", "genbank", "blank", "star", "crlf", "indent"])
        body = []
        star_inline = (style == "star" or rng.random() < 0.2) and rng.random() < 0.5
        star_own_line = not star_inline and (style == "star" or rng.random() < 0.2)
        for k, ln in enumerate(lines):
            if star_inline and k == len(lines) - 1:
                ln = ln + "*"          # the stop codon directly after the last residue (before any decoration of the line)
            if style in ("spaced", "genbank", "numbered"):
                ln = " ".join(ln[i:i + 10] for i in range(0, len(ln), 10))
            if style == "numbered":
                ln = "%d %s %d" % (k * width + 1, ln, k * width + len(lines[k]))
            if style == "genbank":
                ln = "%9d %s" % (k * width + 1, ln)
            if style == "indent":
                ln = "   " + ln + " \t"
            body.append(ln)
            if style == "blank" and rng.random() < 0.5:
                body.append(rng.choice(["", "   ", "\t"]))
        head = [">sp|P%05d|TEST_%d some protein OS=Homo sapiens 1234 *" % (rng.randint(0, 99999), rng.randint(0, 9))] if style in ("fasta", "star", "crlf") or rng.random() < 0.3 else []
        if rng.random() < 0.2:
            head = [""] + head
        tail = ["*"] if star_own_line else []
        nl = "\r\n" if style == "crlf" else "\n"
        text = nl.join(head + body + tail) + (nl if rng.random() < 0.7 else "")
        out.append(text)
    return out


def run(ctx):
    lc = common.load_repo(ctx.repo)
    files = Files(ctx)
    ctx.rule = ("(M) MC_Parser: every file of up to MaxLen tokens over ten character classes is built and parsed by the parser state "
                "machine (BlankLine/HeaderLine/SeqLine/Finish): MachineIsFunction, MachineIsDoc (the machine accepts exactly what the "
                "documentation's reading accepts, with the same residues), ParsedIsResidues, RejectIsSticky, HeaderOnce; (G) every such "
                "file realised with seeded concrete characters, written to disk and parsed by parseSeqFile / SequenceParameters("
                "sequenceFile=); (V) realistic layouts of random sequences and every single-character corruption of small layouts, "
                "judged by TLC (Trace_Input); file-built objects answer a query battery like string-built ones. non-trivial = distinct file")
    maxlen = ctx.pick(4, 5)
    cfg = tlc.write_cfg(os.path.join(ctx.work, "MC_Parser.cfg"), constants={"MaxLen": maxlen},
                        invariants=["MachineIsFunction", "MachineIsDoc", "ParsedIsResidues", "Emit"], properties=["RejectIsSticky", "HeaderOnce"])
    res = tlc.run_tlc("MC_Parser", cfg, ctx.work, timeout=7200, continue_=True)
    ctx.add_tlc(res)
    expect = sum(10 ** k for k in range(maxlen + 1))
    if res.errors or not res.completed or len(res.recs) != expect:
        raise tlc.MachineryError("MC_Parser failed (%d recs): %s" % (len(res.recs), res.errors[:2] or res.stdout[-500:]))
    for v in res.violated:
        ctx.violation("model:" + v, {"module": "MC_Parser"})
    ctx.exhaustive = True
    for rec in res.recs:
        content = realise(rec["file"], ctx.rng)
        e = parse_event(ctx, lc, files, content)
        ctx.traces += 1
        if e is None:
            continue
        exp = "".join(chr(c) for c in rec["seq"])
        got = "".join(chr(c) for c in e["seq"])
        if e["ok"] != rec["ok"]:
            ctx.violation("accepted-invalid-file" if e["ok"] else "rejected-valid-file", {"file": content}, expected=rec["ok"], actual=e["ok"])
        elif e["ok"] and got != exp:
            ctx.violation("file-sequence-differs", {"file": content}, expected=exp, actual=got)
        ctx.nontrivial.add(content)
        if rec["ok"] and exp:
            ctx.sample({"file": content, "parsed": exp}, 2)
    # (V)
    trs = []
    tid = 0
    seqs = common.random_sequences(ctx.rng, ctx.pick(25, 200), ctx.pick(150, 400), 1)
    for s in seqs:
        for content in layouts(s, ctx.rng):
            e = parse_event(ctx, lc, files, content, battery=ctx.rng.random() < 0.15)
            if e:
                tid += 1
                trs.append({"tid": tid, "ev": [e], "content": content})
                got = "".join(chr(c) for c in e["seq"])
                if not e["ok"] or got != s:
                    ctx.violation("layout-not-parsed-to-its-residues", {"file": content}, expected=s, actual=(e["ok"], got))
    # far beyond the enumerated bound (harness comparison only: these files are too long for TLC's recursive parser model):
    # a file much larger than an I/O buffer, a header longer than any line-length limit, very long single lines
    bigseq = (common.random_sequences(ctx.rng, 1, 500, 400)[0] * 40)[:ctx.rng.randint(11000, 13000)]
    hdr = ">sp|Q00000|LONG_HEADER " + " ".join("word%d" % k for k in range(400))
    for content, valid in (
            (">big\n" + "\n".join(bigseq[i:i + 60] for i in range(0, len(bigseq), 60)) + "\n", True),
            (">big\n" + "\n".join(bigseq[i:i + 60] for i in range(0, len(bigseq), 60)) + "\n>second\nKE\n", False),
            (">big\n" + "\n".join(bigseq[i:i + 60] for i in range(0, 9000, 60)) + "\nKE-KE\n", False),
            (hdr + "\n" + bigseq[:300] + "\n", True),
            (hdr + "KEKEKEKEKE" * 120 + "\n" + bigseq[:300] + "\n", True),
            (bigseq + "\n", True), (bigseq[:5000] + "*" + "\n" + bigseq[5000:5010] + "\n", False)):
        e = parse_event(ctx, lc, files, content)
        if e:
            got = "".join(chr(c) for c in e["seq"])
            want = "".join(c for c in content.split("\n", 1)[1] if c.isalpha()) if content.startswith(">") else "".join(c for c in content if c.isalpha())
            if e["ok"] != valid or (valid and got != want):
                ctx.violation("accepted-invalid-file" if e["ok"] and not valid else "file-sequence-differs" if e["ok"] else "rejected-valid-file",
                              {"file": content[:80] + "...", "length": len(content)}, expected=(valid, len(want)), actual=(e["ok"], len(got)))
    # single-character corruptions of small layouts
    small = [">hdr 1\nKEGS TYWA 10\nLMNP*\n", "ACDEF\n\nGHIKL\n", "  1 MKV LAA\n  7 GIV*", ">x\r\nKE\r\nGS\r\n"]
    alphabet = list("KEx 1*>\t\n-") + ["\r", "é", "\x0c"]
    for base in small[:ctx.pick(2, 4)]:
        for i in range(len(base) + 1):
            for ch in alphabet:
                variants = [base[:i] + ch + base[i:]]
                if i < len(base):
                    variants.append(base[:i] + ch + base[i + 1:])
                for content in variants:
                    e = parse_event(ctx, lc, files, content)
                    if e:
                        tid += 1
                        trs.append({"tid": tid, "ev": [e], "content": content})
            if i < len(base):
                e = parse_event(ctx, lc, files, base[:i] + base[i + 1:])
                if e:
                    tid += 1
                    trs.append({"tid": tid, "ev": [e], "content": base[:i] + base[i + 1:]})
    # raw bytes that are not valid UTF-8 inside sequence lines (a Windows-1252 no-break space, Latin-1 letters, a smart quote, a
    # truncated two-byte character, a byte-order mark of another encoding): foreign characters like any other
    for base in ["ACDEF\n\nGHIKL\n", "  1 MKV LAA\n  7 GIV*"]:
        for raw in ["\udca0", "\udce9", "\udc94", "\udc80", "\udcc3", "\udcff\udcfe", "\udcc3\udc28"][:ctx.pick(4, 7)]:
            for i in range(0, len(base) + 1, ctx.pick(2, 1)):
                content = base[:i] + raw + base[i:]
                e = parse_event(ctx, lc, files, content)
                if e:
                    tid += 1
                    trs.append({"tid": tid, "ev": [e], "content": content})
    tab = inputs.tables([t["content"] for t in trs])
    # the parser strips with str.strip(): whitespace = isspace
    for t in trs:
        ctx.nontrivial.add(t["content"])
        t["contentrepr"] = repr(t.pop("content"))[:300]
    verdicts, _ = traces.validate(ctx, "Trace_Input", trs, tab)
    for tr in trs:
        v = verdicts[tr["tid"]]
        ctx.traces += 1
        if v[0] == "reject":
            e = tr["ev"][0]
            ctx.violation(v[2], {"file": "".join(chr(c) for c in e["cps"])}, expected="the parser specification's verdict",
                          actual={"accepted": e["ok"], "sequence": "".join(chr(c) for c in e["seq"])})
    from .. import orderswap
    items = [{"obj": n_, "seq": t_, "q": "__parsefile__"} for n_, t_ in enumerate(
        [">h\nKEKE\nGS*\n", "KEKE GS 10\n", ">h\nKE\n>h2\nGS\n", "KE*GS\n", "KE**\n", "KE-GS\n", "KEXGS\n", "KE\tGS\n", ">only a header\n", "", "ke\n", "KE\n*\n", "K E\n1 2\n", "KE\n\n\nGS\n", "KE;GS\n"])]
    orderswap.env_differential(ctx, items, "accepted-invalid-file", "c14env")
    ctx.sample({"trace": {"file": trs[0]["contentrepr"], "accepted": trs[0]["ev"][0]["ok"]}})
    ctx.assumptions += ["whitespace at either end of a line belongs to the line break (the parser strips it); only interior tabs etc. are foreign characters",
                        "a header after sequence lines counts as the (single) header; empty / header-only files are not asserted at the object level",
                        "files are written and read as UTF-8"]


def replay(ctx, rec):
    lc = common.load_repo(ctx.repo)
    files = Files(ctx)
    content = rec["case"]["file"]
    e = parse_event(ctx, lc, files, content, battery=True)
    print("file", repr(content), "->", e and (e["ok"], "".join(chr(c) for c in e["seq"])))
    if e:
        verdicts, _ = traces.validate(ctx, "Trace_Input", [{"tid": 1, "ev": [e]}], inputs.tables([content]))
        if verdicts[1][0] == "reject":
            ctx.violation(verdicts[1][2], rec["case"])
