"""C11  complexity profiles: window count, positions, range, locality, WF = entropy."""
import itertools
import os

from .. import common, tlc, traces, kernels
from ..objects import warmup, make_object
from .c12 import SIZES, ua_json


def as_2xk(v):
    try:
        import numpy as np
        a = np.asarray(v, dtype=float)
        if a.ndim != 2 or a.shape[0] != 2:
            return None
        return [float(x) for x in a[0]], [float(x) for x in a[1]]
    except Exception:
        return None


def event(ctx, lc, o, seq, ctype, size, ua, w, s, ws, need):
    """One get_linear_complexity call + the isolated-window calls (locality)."""
    N = len(seq)
    kw = ua if ua is not None else {}
    out = common.call(o.get_linear_complexity, ctype, size if ua is None else 20, kw, w, s, ws)
    ctx.evaluations += 1
    e = {"q": "complexity", "type": str(ctype).upper() if isinstance(ctype, str) else "?", "knowntype": isinstance(ctype, str) and ctype.upper() in ("WF", "LC", "LZW"),
         "size": int(size) if ua is None else 0, "ua": ua_json(ua) if ua is not None else {"A": "A"}, "w": int(w), "s": int(s), "ws": int(ws),
         "exc": out[0] != "ok", "pos": [], "rv": [], "iso": []}
    if out[0] != "ok":
        return e
    pk = as_2xk(out[1])
    if pk is None or any(p != int(p) for p in pk[0]):
        ctx.violation("complexity-shape", {"seq": seq, "type": ctype, "size": size, "ua": ua, "w": w, "s": s, "ws": ws}, expected="2 x K array", actual=out)
        return None
    e["pos"] = [int(p) for p in pk[0]]
    e["rv"] = [common.fx(v) for v in pk[1]]
    if e["knowntype"] and w <= N:
        w, s = int(w), int(s)
        K = (N - w) // s + 1
        for j in range(min(K, len(pk[1]))):
            win = seq[j * s:j * s + w]
            iso = common.call(lc.SP(win).get_linear_complexity, ctype, size if ua is None else 20, kw, w, 1, ws)
            pi = as_2xk(iso[1]) if iso[0] == "ok" else None
            if pi is None or len(pi[1]) != 1:
                ctx.violation("complexity-locality", {"seq": seq, "window": win, "type": ctype}, expected="one value for the window alone", actual=iso)
                return None
            e["iso"].append(common.fx(pi[1][0]))
        k = len(set(ua.values())) if ua is not None else int(size)
        need.add((k, int(w)))
    return e


def run(ctx):
    lc = common.load_repo(ctx.repo)
    ctx.rule = ("(proof) TLAPS ProofsGeometry: WindowsFit, PositionRow for all sizes; (M) MC_Complexity: every (N,w,s) up to MaxN: K windows fit, window K+1 does not, the coded position row has K strictly "
                "increasing entries in 1..N; every window over 3 letters up to length 7: LC, LZW in [0,1], WF counts sum to the window; "
                "(G) every sequence over {K,E,G,L} up to a length x 3 types x alphabets {2,3,20} x every (w,s) x word sizes; (V) random "
                "sequences x types x 12 sizes x random user alphabets x random w, s, word size; unknown type and w > N must raise. Every "
                "reply is judged by TLC: K, positions, range, locality (value = value of the window alone), WF = sum of the entropy "
                "kernel over the reduced counts. non-trivial = distinct (sequence, type, alphabet, w, s)")
    # unbounded (TLAPS, ProofsGeometry): WindowsFit (K windows fit, K+1 do not) and PositionRow (K strictly increasing positions
    # within 1..N) for all N, w, s
    from .. import tlaps
    ctx.extra["tlaps_obligations_proved"] = tlaps.prove(ctx, "ProofsGeometry", ["Geometry"])
    maxn = ctx.pick(40, 100)
    cfg = tlc.write_cfg(os.path.join(ctx.work, "MC_Complexity.cfg"), constants={"MaxN": maxn, "MaxWin": ctx.pick(7, 9)},
                        invariants=["Geometry", "Values", "Homopolymer"])
    res = tlc.run_tlc("MC_Complexity", cfg, ctx.work, timeout=7200, continue_=True)
    ctx.add_tlc(res)
    if res.errors or not res.completed or res.distinct < maxn * (maxn + 1) * (2 * maxn + 1) // 6:
        raise tlc.MachineryError("MC_Complexity failed: %s" % (res.errors[:2] or res.stdout[-500:]))
    for v in res.violated:
        ctx.violation("model:" + v, {"module": "MC_Complexity"})
    ctx.exhaustive = True
    need = set()
    trs = []
    tid = 0
    # (G) exhaustive short sequences
    L = ctx.pick(4, 5)
    for n in range(1, L + 1):
        for t in itertools.product("KEGL", repeat=n):
            seq = "".join(t)
            o = lc.SP(seq)
            ev = []
            for w in range(1, n + 1):
                for s in range(1, n + 1):
                    for size in (2, 3, 20):
                        for ctype, wss in (("WF", [3]), ("LZW", [3]), ("LC", [1, 2, 3])):
                            for ws in wss:
                                e = event(ctx, lc, o, seq, ctype, size, None, w, s, ws, need)
                                if e:
                                    ev.append(e)
                                    ctx.nontrivial.add((seq, ctype, size, w, s))
            tid += 1
            trs.append({"tid": tid, "seq": list(seq), "ev": ev})
    # (V)
    seqs = common.random_sequences(ctx.rng, ctx.pick(10, 80), ctx.pick(60, 150), 2)
    for i, seq in enumerate(seqs):
        o, seq, how = make_object(lc, seq, ctx.rng)
        N = len(seq)
        hist = ([{"made": how}] if how != "direct" else []) + (warmup(o, ctx.rng) if i % 2 else [])
        ev = []
        for _ in range(ctx.pick(8, 14)):
            ctype = ctx.rng.choice(["WF", "LC", "LZW", "wf", "lzw"])
            ua = None
            size = ctx.rng.choice(SIZES)
            if ctx.rng.random() < 0.3:
                reps = ctx.rng.sample(common.AA, ctx.rng.randint(2, 7))
                ua = {a: ctx.rng.choice(reps) for a in common.AA}
                for r in reps[:2]:
                    ua[r] = r          # at least two letters in the alphabet
            w = ctx.rng.choice([1, N, ctx.rng.randint(1, N), ctx.rng.randint(1, min(N, 15)), 10 if N >= 10 else N])
            s = ctx.rng.choice([1, 1, ctx.rng.randint(1, N), ctx.rng.randint(1, max(1, w + 3))])
            ws = ctx.rng.randint(1, 6) if ctype == "LC" else 3
            if ctx.rng.random() < 0.35:
                import numpy as np           # integer arguments may arrive as numpy integers
                w, s, ws = np.int64(w), np.int64(s), np.int64(ws)
                if ua is None:
                    size = np.int64(size)
            e = event(ctx, lc, o, seq, ctype, size, ua, w, s, ws, need)
            if e:
                ev.append(e)
                ctx.nontrivial.add((seq[:30], ctype.upper(), int(size) if ua is None else tuple(sorted(ua.items())), int(w), int(s)))
        # the same window and step with several user alphabets in a row (fresh dictionaries, and one edited in place)
        w0, s0 = min(N, 6), 2
        ua0 = {a: a for a in common.AA}
        for rep_ in range(3):
            reps = ctx.rng.sample(common.AA, ctx.rng.randint(2, 5))
            ua1 = {a: ctx.rng.choice(reps) for a in common.AA}
            for r in reps[:2]:
                ua1[r] = r
            e = event(ctx, lc, o, seq, "WF", 20, ua1, w0, s0, 3, need)
            if e:
                ev.append(e)
            ua0[ctx.rng.choice(common.AA)] = ctx.rng.choice(reps)        # edited in place between calls
            e = event(ctx, lc, o, seq, "WF", 20, dict(ua0) if False else ua0, w0, s0, 3, need)
            if e:
                ev.append(e)
        for bad_type, w in (("XX", 1), ("RHP", 1), (None, 1), ("", 1), ("W", 1), ("LZ", 1), ("L", 1), ("LC,", 1), ("WF ", 1), ("WF", N + 1), ("LC", N + 2), ("LZW", N + 3)):
            e = event(ctx, lc, o, seq, bad_type, 20, None, w, 1, 3, need)
            if e:
                ev.append(e)
        tid += 1
        trs.append({"tid": tid, "seq": list(seq), "after": hist, "ev": ev})
    # beyond the random bound: long single-residue runs with windows of 33 and more; steps of 49 and more dividing N - w
    for rep in range(ctx.pick(4, 12)):
        blocks = "".join(ctx.rng.choice("LFEKGS") * ctx.rng.randint(7, 40) for _ in range(ctx.rng.randint(3, 6)))
        o = lc.SP(blocks)
        ev = []
        for size in (3, 4, 20):
            w = ctx.rng.randint(33, min(len(blocks), 64))
            e = event(ctx, lc, o, blocks, "WF", size, None, w, ctx.rng.choice([1, 2, 5]), 3, need)
            if e:
                ev.append(e)
        tid += 1
        trs.append({"tid": tid, "seq": list(blocks), "ev": ev})
    # runs of 30..48 of a few residues with single residues between them, windows of 33..48 slid one residue at a time:
    # window compositions that differ by more than 30 in one count within one profile
    for rep in range(ctx.pick(90, 400)):
        letters = ctx.rng.sample("LFEKGSQP", ctx.rng.randint(3, 4))
        parts = []
        hi_ = ctx.rng.choice([40, 44, 48])
        for _ in range(ctx.rng.randint(3, 6)):
            parts.append(ctx.rng.choice(letters) * ctx.rng.randint(31, hi_))
            if ctx.rng.random() < 0.7:
                parts.append(ctx.rng.choice(letters))
        blocks = "".join(parts)
        e = event(ctx, lc, lc.SP(blocks), blocks, "WF", ctx.rng.choice([3, 4, 5, 8, 20]), None, ctx.rng.randint(33, hi_), 1, 3, need)
        if e:
            tid += 1
            trs.append({"tid": tid, "seq": list(blocks), "ev": [e]})
    for s_ in (49, 98, 103, 107, 161)[:ctx.pick(3, 5)]:
        for ctype in ("LZW", "WF", "LC"):
            w = ctx.rng.randint(2, 6)
            N = w + s_ * ctx.rng.randint(1, 2)
            seq = common.random_sequences(ctx.rng, 1, N, N)[0]
            e = event(ctx, lc, lc.SP(seq), seq, ctype, 20, None, w, s_, 3, need)
            if e:
                tid += 1
                trs.append({"tid": tid, "seq": list(seq), "ev": [e]})
    ent = [{"k": k, "w": w, "h": kernels.entropy_row(k, w)} for (k, w) in sorted(need) if k >= 2]
    verdicts, _ = traces.validate(ctx, "Trace_Queries", trs, {"sqrt": [], "ent": ent})
    for tr in trs:
        v = verdicts[tr["tid"]]
        ctx.traces += 1
        if v[0] == "reject":
            e = tr["ev"][v[1] - 1]
            ctx.violation(v[2], {"seq": "".join(tr["seq"]), "after": tr.get("after"), "type": e["type"], "size": e["size"], "ua": e["ua"] if e["size"] == 0 else None,
                                 "w": e["w"], "s": e["s"], "ws": e["ws"], "pos": e["pos"]},
                          expected="K windows, increasing positions in 1..N, values in [0,1], local, WF = entropy", actual="trace rejected by TLC at event %d" % v[1])
    from .. import orderswap
    sq = common.random_sequences(ctx.rng, 1, 40, 20)[0]
    items = [{"obj": 0, "seq": sq, "q": "get_linear_complexity", "a": a_} for a_ in
             (["XX", 20, {}, 5, 1], ["wf ", 20, {}, 5, 1], ["WF", 20, {}, len(sq) + 1, 1], ["LC", 20, {}, len(sq) + 5, 1, 3], ["LZW", 20, {}, 10 ** 6, 1],
              ["WF", 7, {}, 5, 1], ["WF", 20, {}, 5, 1], ["lc", 8, {}, 6, 2, 3], ["LZW", 3, {}, 7, 3], ["WF", 20, {"A": "A"}, 5, 1])]
    orderswap.env_differential(ctx, items, "complexity-acceptance", "c11env")
    ctx.sample({"trace": {"seq": "".join(trs[-1]["seq"]), "ev": [{k: e[k] for k in ("type", "size", "w", "s", "ws", "pos")} for e in trs[-1]["ev"][:3]]}})
    ctx.extra["entropy_kernel_rows"] = len(ent)
    ctx.assumptions += ["entropy kernel -(c/W)log_k(c/W) computed by the harness with 60-digit decimals (trusted); TLC decides the counts, the base and the sum",
                        "LC/LZW: only range and locality are demanded (the statement does not fix their formula); window/step/word size 0 out of scope",
                        "user alphabets with a single letter are excluded (base-1 entropy undefined)"]


def replay(ctx, rec):
    lc = common.load_repo(ctx.repo)
    c = rec["case"]
    need = set()
    o = lc.SP(c["seq"])
    from ..objects import apply_call
    for h in c.get("after") or []:
        apply_call(o, h)
    ua = c.get("ua")
    e = event(ctx, lc, o, c["seq"], c["type"], c["size"] or 20, ua, c["w"], c["s"], c["ws"], need)
    print("reply positions", e and e["pos"], "exc", e and e["exc"])
    if e:
        ent = [{"k": k, "w": w, "h": kernels.entropy_row(k, w)} for (k, w) in sorted(need) if k >= 2]
        verdicts, _ = traces.validate(ctx, "Trace_Queries", [{"tid": 1, "seq": list(c["seq"]), "ev": [e]}], {"sqrt": [], "ent": ent})
        if verdicts[1][0] == "reject":
            ctx.violation(verdicts[1][2], c)
