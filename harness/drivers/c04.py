"""C04  composition parameters equal their published per-residue definitions."""
import os
from fractions import Fraction

from .. import common, tlc, patterning, traces
from ..objects import warmup, make_object

GET = {
    "countPos": lambda o: o.get_countPos(), "countNeg": lambda o: o.get_countNeg(), "countNeut": lambda o: o.get_countNeut(),
    "fraction_positive": lambda o: o.get_fraction_positive(), "fraction_negative": lambda o: o.get_fraction_negative(),
    "FCR": lambda o: o.get_FCR(), "NCPR": lambda o: o.get_NCPR(), "mean_net_charge": lambda o: o.get_mean_net_charge(),
    "fraction_expanding": lambda o: o.get_fraction_expanding(),
    "fraction_disorder_promoting": lambda o: o.get_fraction_disorder_promoting(),
    "mean_hydropathy": lambda o: o.get_mean_hydropathy(), "uversky_hydropathy": lambda o: o.get_uversky_hydropathy(),
    "WW_hydropathy": lambda o: o.get_WW_hydropathy(), "PPII_hilser": lambda o: o.get_PPII_propensity("hilser"),
    "PPII_creamer": lambda o: o.get_PPII_propensity(mode="creamer"), "PPII_kallenbach": lambda o: o.get_PPII_propensity("kallenbach"),
    "molecular_weight": lambda o: o.get_molecular_weight(), "length": lambda o: o.get_length(),
}


def mc(ctx, alphabet, maxlen, tag):
    cfg = tlc.write_cfg(os.path.join(ctx.work, "MC_Composition_%s.cfg" % tag),
                        constants={"Alphabet": set(alphabet), "MaxLen": maxlen},
                        invariants=["SumIsCountForm", "PermutationInvariant", "Identities", "FractionsSumToOne", "Emit"])
    res = tlc.run_tlc("MC_Composition", cfg, ctx.work, timeout=7200, continue_=True, tag=tag)
    ctx.add_tlc(res)
    expect = sum(len(alphabet) ** k for k in range(0, maxlen + 1))
    if res.errors or not res.completed or res.distinct != expect or len(res.recs) != expect - 1:
        raise tlc.MachineryError("MC_Composition failed: %s" % (res.errors[:2] or res.stdout[-600:]))
    for v in res.violated:
        ctx.violation("model:" + v, {"module": "MC_Composition", "alphabet": alphabet})
    return res


def all_replies(o):
    outs = {q: common.call(f, o) for q, f in GET.items()}
    first = common.call(o.get_amino_acid_fractions)
    if first[0] == "ok" and isinstance(first[1], dict):
        for key in list(first[1]):          # the caller owns the returned dictionary
            first[1][key] = -1.0
    outs["aa"] = common.call(o.get_amino_acid_fractions)
    return outs


def events(ctx, seq, outs, hist=None):
    ev = []
    for q in GET:
        v = outs[q]
        if v[0] != "ok" or not common.is_number(v[1]):
            ctx.violation("param-" + q, {"seq": seq, "after": hist}, expected="a number", actual=v)
            continue
        ev.append({"q": "param", "name": q, "r": common.fx(v[1])})
    aa = outs["aa"]
    if aa[0] != "ok" or not isinstance(aa[1], dict) or sorted(aa[1]) != sorted(common.AA):
        ctx.violation("amino-acid-fraction", {"seq": seq, "after": hist}, expected="dict over the 20 residues", actual=aa)
    else:
        for a in common.AA:
            ev.append({"q": "aafrac", "aa": a, "r": common.fx(aa[1][a])})
    return ev


def run(ctx):
    lc = common.load_repo(ctx.repo)
    ctx.rule = ("(M) every sequence over a small alphabet up to MaxLen and every sequence over all 20 residues up to length 2 is a TLC "
                "state: SumIsCountForm, PermutationInvariant, Identities, FractionsSumToOne; (G) every state replayed into all 18 scalar "
                "getters + the 20 amino-acid fractions, expected = TLC's exact rationals; (V) random sequences of every composition class "
                "(each also as a random permutation of itself, some after a call history) recorded and judged by TLC (Trace_Queries). "
                "non-trivial = distinct sequence")
    runs = [mc(ctx, list(common.AA), 2, "all20"), mc(ctx, ["K", "D", "P", "W", "H"], ctx.pick(4, 6), "small")]
    ctx.exhaustive = True
    for res in runs:
        for rec in res.recs:
            seq = "".join(rec["seq"])
            o = lc.SP(seq)
            outs = all_replies(o)
            ctx.evaluations += 1
            ctx.traces += 1
            for q in GET:
                e = common.rat(rec["v"][q]["s"], rec["v"][q]["n"], rec["v"][q]["d"])
                v = outs[q]
                if v[0] != "ok" or not common.is_number(v[1]) or not common.close(v[1], e):
                    ctx.violation("param-" + q, {"seq": seq}, expected=float(e), actual=v)
            aa = outs["aa"]
            if aa[0] != "ok" or not isinstance(aa[1], dict) or sorted(aa[1]) != sorted(common.AA):
                ctx.violation("amino-acid-fraction", {"seq": seq}, actual=aa)
            else:
                for a in common.AA:
                    e = common.rat(rec["aa"][a]["s"], rec["aa"][a]["n"], rec["aa"][a]["d"])
                    if not common.close(aa[1][a], e):
                        ctx.violation("amino-acid-fraction", {"seq": seq, "aa": a}, expected=float(e), actual=aa[1][a])
            ctx.nontrivial.add(seq)
            ctx.sample({"seq": seq, "expected_mean_hydropathy": str(common.rat(rec["v"]["mean_hydropathy"]["s"], rec["v"]["mean_hydropathy"]["n"], rec["v"]["mean_hydropathy"]["d"]))}, 2)
    # (V)
    nseq = ctx.pick(14, 120)
    maxn = ctx.pick(200, 500)
    seqs = common.random_sequences(ctx.rng, nseq, maxn, 1) + patterning.special_sequences(ctx.rng, ctx.pick(200, 400))[:8]
    trs = []
    tid = 0
    for i, s in enumerate(seqs):
        perm = list(s)
        ctx.rng.shuffle(perm)
        perm = "".join(perm)
        pair = []
        for var in (s, perm):
            o, var, how = make_object(lc, var, ctx.rng)
            hist = ([{"made": how}] if how != "direct" else []) + (warmup(o, ctx.rng) if (i % 2) else [])
            # the scale name is documented as case-insensitive
            for mode, q in (("Creamer", "PPII_creamer"), ("KALLENBACH", "PPII_kallenbach"), ("Hilser", "PPII_hilser")):
                alt = common.call(o.get_PPII_propensity, mode)
                ref = common.call(o.get_PPII_propensity, mode.lower())
                if alt[0] != ref[0] or (alt[0] == "ok" and not common.close(alt[1], Fraction(float(ref[1])), tol=Fraction(1, 10**12))):
                    ctx.violation("param-" + q, {"seq": var, "mode": mode}, expected=ref, actual=alt)
            if (i + len(pair)) % 3 == 0:
                # the entry points that write the composition out (file, rendering) first: they must not touch what is asked next
                from ..objects import apply_call
                for c_ in ({"call": "write_compfile"}, {"call": "get_HTMLColorString"}, {"call": "save_phaseDiagramPlot"})[:ctx.rng.randint(1, 3)]:
                    apply_call(o, c_)
                    hist = hist + [c_]
            outs = all_replies(o)
            ctx.evaluations += 1
            tid += 1
            trs.append({"tid": tid, "seq": list(var), "after": hist, "ev": events(ctx, var, outs, hist)})
            pair.append(outs)
        for q in GET:
            a, b = pair[0][q], pair[1][q]
            if a[0] == "ok" and b[0] == "ok" and common.is_number(a[1]) and common.is_number(b[1]) and not common.close(a[1], Fraction(float(b[1]))):
                ctx.violation("permutation-changes-" + q, {"seq": s, "variant": perm}, expected=a, actual=b)
    # beyond the bound: an object read from a multi-line file of more than 8 kB (judged by TLC like the others) and one residue
    # occurring more than 2^16 times (harness arithmetic: fractions = counts / length)
    import os
    import tempfile
    big = "".join(ctx.rng.choices(common.AA, k=ctx.pick(9000, 20000)))
    d = os.path.join(common.VERIF, ".work", "objfiles")
    os.makedirs(d, exist_ok=True)
    fd, path = tempfile.mkstemp(dir=d, suffix=".fasta")
    with os.fdopen(fd, "w") as f:
        f.write(">a long record\n" + "\n".join(big[i:i + 60] for i in range(0, len(big), 60)) + "\n")
    try:
        made = common.call(lambda: lc.SP(sequenceFile=path), limit=120)
    finally:
        os.remove(path)
    if made[0] != "ok":
        ctx.violation("long-file-object", {"length": len(big)}, expected="an object", actual=made)
    else:
        tid += 1
        trs.append({"tid": tid, "seq": list(big), "after": [{"made": "from a FASTA file of %d residues in 60-column lines" % len(big)}], "ev": events(ctx, big[:50] + "...", all_replies(made[1]))})
    huge = list("G" * 66000 + "".join(ctx.rng.choices(common.AA, k=3000)))
    ctx.rng.shuffle(huge)
    huge = "".join(huge)
    oh = common.call(lambda: lc.SP(huge), limit=300)
    if oh[0] == "ok":
        outs = all_replies(oh[1])
        ctx.evaluations += 1
        N = len(huge)
        want = {"FCR": Fraction(sum(huge.count(c) for c in "KRDE"), N), "NCPR": Fraction(huge.count("K") + huge.count("R") - huge.count("D") - huge.count("E"), N),
                "fraction_positive": Fraction(huge.count("K") + huge.count("R"), N), "fraction_negative": Fraction(huge.count("D") + huge.count("E"), N)}
        for q, e in want.items():
            if q in outs and (outs[q][0] != "ok" or not common.close(outs[q][1], e)):
                ctx.violation("param-" + q, {"length": N, "composition": "66000 G + 3000 random"}, expected=float(e), actual=outs[q])
        aa = outs["aa"]
        if aa[0] != "ok" or not isinstance(aa[1], dict) or any(not common.close(aa[1].get(a, -1), Fraction(huge.count(a), N)) for a in common.AA):
            ctx.violation("amino-acid-fraction", {"length": N, "composition": "66000 G + 3000 random"}, expected={a: huge.count(a) / N for a in "GKE"}, actual=aa if aa[0] != "ok" else {a: aa[1].get(a) for a in "GKE"})
    else:
        ctx.violation("long-object", {"length": len(huge)}, expected="an object", actual=oh)
    verdicts, known = traces.validate(ctx, "Trace_Queries", trs, {"sqrt": []})
    for tr in trs:
        v = verdicts[tr["tid"]]
        ctx.traces += 1
        if v[0] == "reject":
            e = tr["ev"][v[1] - 1]
            ctx.violation(v[2], {"seq": "".join(tr["seq"]), "after": tr["after"], "event": e.get("name") or e.get("aa")},
                          expected="reply matches the table sum", actual="trace rejected by TLC at event %d" % v[1])
        else:
            ctx.nontrivial.add("".join(tr["seq"]))
    ctx.sample({"trace": {"seq": seqs[0], "ev": sorted(GET) + ["amino_acid_fractions"]}})
    ctx.assumptions += ["per-residue tables in spec/Residues.tla are transcribed from the documentation / cited scales",
                        "1e-9 relative tolerance on floats"]


def replay(ctx, rec):
    lc = common.load_repo(ctx.repo)
    from ..objects import apply_call
    from .. import traces
    c = rec["case"]
    o = lc.SP(c["seq"])
    for h in c.get("after") or []:
        apply_call(o, h)
    outs = all_replies(o)
    print(c["seq"], {k: v for k, v in outs.items() if k != "aa"})
    tr = [{"tid": 1, "seq": list(c["seq"]), "after": c.get("after"), "ev": events(ctx, c["seq"], outs)}]
    verdicts, _ = traces.validate(ctx, "Trace_Queries", tr, {"sqrt": []})
    if verdicts[1][0] == "reject":
        ctx.violation(verdicts[1][2], c, actual="rejected at event %d" % verdicts[1][1])
