"""C10  sliding-window profiles report each window's statistic at its centre position."""
import os
from fractions import Fraction

from .. import common, tlc, traces
from ..objects import warmup, make_object

STAT_CALL = {"NCPR": "get_linear_NCPR", "FCR": "get_linear_FCR", "sigma": "get_linear_sigma", "hydropathy": "get_linear_hydropathy"}
DEFAULT_GROUPS = [['E', 'D'], ['R', 'K'], ['R', 'K', 'E', 'D'], ['Q', 'N', 'S', 'T', 'G', 'H', 'C'], ['A', 'L', 'M', 'I', 'V'],
                  ['F', 'Y', 'W'], ['P']]


def as_profile(out, N):
    """(positions list, values list) of a 2xN reply, or None."""
    try:
        import numpy as np
        a = np.asarray(out)
        if a.shape != (2, N):
            return None
        return [float(x) for x in a[0]], [float(x) for x in a[1]]
    except Exception:
        return None


def as_composition(out, N, ngroups):
    try:
        import numpy as np
        pos, dens = out
        pos = [float(x) for x in np.asarray(pos).reshape(-1)]
        d = np.asarray(dens, dtype=float)
        if d.ndim == 1:
            d = d.reshape(1, -1)
        if d.shape != (ngroups, N) or len(pos) != N:
            return None
        return pos, [[float(x) for x in row] for row in d]
    except Exception:
        return None


def mc(ctx, alphabet, maxlen, emit, tag):
    cfg = tlc.write_cfg(os.path.join(ctx.work, "MC_Profiles_%s.cfg" % tag),
                        constants={"Alphabet": set(alphabet), "MaxLen": maxlen, "EmitRecords": emit},
                        invariants=["FlanksAgree", "CodeIsDoc", "WholeWindow", "DeltaFromProfiles", "Emit"])
    res = tlc.run_tlc("MC_Profiles", cfg, ctx.work, timeout=7200, continue_=True, tag=tag)
    ctx.add_tlc(res)
    expect = sum(len(alphabet) ** k for k in range(maxlen + 1))
    if res.errors or not res.completed or res.distinct != expect or (emit and len(res.recs) != expect - 1):
        raise tlc.MachineryError("MC_Profiles failed: %s" % (res.errors[:2] or res.stdout[-600:]))
    for v in res.violated:
        ctx.violation("model:" + v, {"module": "MC_Profiles", "alphabet": alphabet})
    return res


def check_row(ctx, clause, case, vals, exp):
    if len(vals) != len(exp) or any(not common.close(v, Fraction(e[0], e[1])) for v, e in zip(vals, exp)):
        ctx.violation(clause, case, expected=[float(Fraction(e[0], e[1])) for e in exp], actual=vals)
        return False
    return True


def run(ctx):
    lc = common.load_repo(ctx.repo)
    from .. import objmodel
    defaults = objmodel.Defaults(lc)
    ctx.rule = ("(proof) TLAPS ProofsGeometry: FlanksAddUp, CodePlacementIsDocumented for all w <= N; (M) every sequence over {K,E,G,P,Y,L} up to MaxLen (and over {K,E,G} up to a longer bound) x every window 1..N: "
                "FlanksAgree, CodeIsDoc, WholeWindow, DeltaFromProfiles; (G) every state x every window 1..N+3 replayed into "
                "get_linear_NCPR/FCR/sigma/hydropathy and the default get_linear_sequence_composition, expected = TLC's exact "
                "profiles, windows > N must raise; (V) random sequences up to 200 residues x random windows x random user group "
                "lists (lower case, overlapping, invalid letters), some after a call history, judged by TLC. non-trivial = distinct "
                "(sequence, window)")
    # unbounded (TLAPS, ProofsGeometry): FlanksAddUp and CodePlacementIsDocumented (the implementation's flank arithmetic is the
    # documented placement) for every 1 <= w <= N
    from .. import tlaps
    ctx.extra["tlaps_obligations_proved"] = tlaps.prove(ctx, "ProofsGeometry", ["Geometry"])
    res = mc(ctx, ["K", "E", "G", "P", "Y", "L"], ctx.pick(4, 5), True, "six")
    mc(ctx, ["K", "E", "G"], ctx.pick(7, 9), False, "charge")
    ctx.exhaustive = True
    for rec in res.recs:
        seq = "".join(rec["seq"])
        N = len(seq)
        o = lc.SP(seq)
        for w in range(1, N + 4):
            ctx.evaluations += 1
            for stat, name in STAT_CALL.items():
                out = common.call(getattr(o, name), w)
                case = {"seq": seq, "w": w, "call": name}
                if w > N:
                    if out[0] != "exc":
                        ctx.violation("window-longer-than-sequence-answered", case, expected="rejected", actual=out)
                    continue
                pr = as_profile(out[1], N) if out[0] == "ok" else None
                if pr is None:
                    ctx.violation("profile-shape", case, expected="2 x N array", actual=out)
                    continue
                if pr[0] != [float(j) for j in range(1, N + 1)]:
                    ctx.violation("profile-positions", case, expected="1..N", actual=pr[0])
                check_row(ctx, "profile-" + stat, case, pr[1], rec["prof"][w - 1][stat])
            out = common.call(o.get_linear_sequence_composition, w)
            case = {"seq": seq, "w": w, "call": "get_linear_sequence_composition"}
            if w > N:
                if out[0] != "exc":
                    ctx.violation("window-longer-than-sequence-answered", case, expected="rejected", actual=out)
                continue
            cp = as_composition(out[1], N, 7) if out[0] == "ok" else None
            if cp is None:
                ctx.violation("composition-shape", case, expected="(positions, 7 x N)", actual=out)
                continue
            if cp[0] != [float(j) for j in range(1, N + 1)]:
                ctx.violation("profile-positions", case, actual=cp[0])
            for g in range(7):
                check_row(ctx, "profile-composition", dict(case, group=g), cp[1][g], rec["comp"][w - 1][g])
            ctx.nontrivial.add((seq, w))
        ctx.traces += 1
        ctx.sample({"seq": seq, "w": 2, "expected_NCPR": rec["prof"][min(1, N - 1)]["NCPR"]}, 2)
    # (V)
    nseq = ctx.pick(12, 80)
    maxn = ctx.pick(120, 200)
    # beyond the random bound: windows holding 256 or more residues of one group
    seqs = common.random_sequences(ctx.rng, nseq, maxn, 1) + [("GGS" * 101)[:302], "Q" * 290, "".join(ctx.rng.choices("GSQNTAP", k=ctx.rng.randint(257, 330)))]
    trs = []
    for i, s in enumerate(seqs):
        o, s, how = make_object(lc, s, ctx.rng)
        N = len(s)
        hist = ([{"made": how}] if how != "direct" else []) + (warmup(o, ctx.rng) if i % 2 else [])
        ev = []
        ws = {1, N, N + 1, N + 2, N + 3, ctx.rng.randint(1, N), ctx.rng.randint(1, N), min(N, 5), min(N, 6), min(N, 4), min(N, 8)}
        if N >= 280:
            ws = {N, N + 1, 256, 257, N - 1, 5}
        for w in sorted(ws):
            for stat, name in STAT_CALL.items():
                wa = w
                if ctx.rng.random() < 0.25:
                    import numpy as np
                    wa = np.int64(w)
                out = common.call(getattr(o, name), wa)
                e = {"q": "linear", "stat": stat, "w": w, "exc": out[0] != "ok", "pos": [], "rv": []}
                if out[0] == "ok":
                    pr = as_profile(out[1], N)
                    if pr is None or any(p != int(p) for p in pr[0]):
                        ctx.violation("profile-shape", {"seq": s, "w": w, "call": name, "after": hist}, actual=out)
                        continue
                    e["pos"] = [int(p) for p in pr[0]]
                    e["rv"] = [common.fx(v) for v in pr[1]]
                ev.append(e)
            # compositions: default, and a random user group list
            for default in (True, False):
                if default:
                    groups, arg = DEFAULT_GROUPS, None
                    if ctx.rng.random() < 0.5:
                        # an explicitly passed empty list, in a process where the default groups were not used yet
                        arg = []
                        defaults.reset()
                else:
                    k = ctx.rng.randint(1, 4)
                    groups = [ctx.rng.sample(common.AA, ctx.rng.randint(1, 6)) for _ in range(k)]
                    arg = [[c.lower() if ctx.rng.random() < 0.3 else c for c in g] for g in groups]
                    if ctx.rng.random() < 0.4:
                        # a residue named twice (also in the other case), a group given as a string or a tuple
                        arg = [g + [ctx.rng.choice(g).lower(), g[0]] for g in arg]
                        form = ctx.rng.choice(["list", "str", "tuple"])
                        arg = ["".join(g) if form == "str" else tuple(g) if form == "tuple" else g for g in arg]
                wa = w
                if ctx.rng.random() < 0.3:
                    import numpy as np
                    wa = np.int64(w)
                out = common.call(o.get_linear_sequence_composition, wa, arg) if arg is not None else common.call(o.get_linear_sequence_composition, wa)
                e = {"q": "lincomp", "w": w, "default": default, "groups": groups, "exc": out[0] != "ok", "pos": [], "rows": []}
                if out[0] == "ok":
                    cp = as_composition(out[1], N, len(groups))
                    if cp is None:
                        ctx.violation("composition-shape", {"seq": s, "w": w, "groups": arg, "after": hist}, actual=out)
                        continue
                    e["pos"] = [int(p) for p in cp[0]]
                    e["rows"] = [[common.fx(v) for v in row] for row in cp[1]]
                ev.append(e)
            ctx.evaluations += 1
        # delta is the mean squared deviation of the w=5,6 sigma profiles from the global sigma (MC_Profiles: DeltaFromProfiles)
        dl = common.call(o.get_delta)
        if dl[0] != "ok" or not common.is_number(dl[1]):
            ctx.violation("delta-from-profiles", {"seq": s, "after": hist}, expected="a number", actual=dl)
        else:
            ev.append({"q": "delta", "r": common.fx(dl[1])})
        # a group with a non-amino-acid must not be silently accepted as a density of something
        bad = common.call(o.get_linear_sequence_composition, min(N, 3), [["K", "X"]])
        if bad[0] == "ok":
            ctx.notes.append("group list with X accepted for %s" % s[:20])
        trs.append({"tid": i + 1, "seq": list(s), "after": hist, "ev": ev})
    # many distinct window sizes on one object, then earlier ones again (a per-object memo must not mix them up)
    s = common.random_sequences(ctx.rng, 1, 110, 100)[0]
    o = lc.SP(s)
    ev = []
    order = list(range(1, 81)) + [ctx.rng.randint(1, 80) for _ in range(25)]
    for k, w in enumerate(order):
        for stat, name in list(STAT_CALL.items())[:3]:
            out = common.call(getattr(o, name), w)
            if k < 70 and k % 9:
                continue                       # the first pass is mostly to fill whatever the object remembers
            e = {"q": "linear", "stat": stat, "w": w, "exc": out[0] != "ok", "pos": [], "rv": []}
            if out[0] == "ok":
                pr = as_profile(out[1], len(s))
                if pr is None:
                    ctx.violation("profile-shape", {"seq": s, "w": w, "call": name}, actual=out)
                    continue
                e["pos"] = [int(p) for p in pr[0]]
                e["rv"] = [common.fx(v) for v in pr[1]]
            ev.append(e)
    trs.append({"tid": len(trs) + 1, "seq": list(s), "after": [{"made": "80 distinct windows first"}], "ev": ev})
    # the profiles are functions of (sequence, window, groups) alone: the same questions in two pristine processes, in one of them
    # after calls that fail (window 0, negative, fractional, too long) as the very first composition calls of the process
    from .. import orderswap
    sa, sb = common.random_sequences(ctx.rng, 2, 40, 12)
    items = [{"obj": 0, "seq": sa, "q": "get_linear_sequence_composition", "a": [bad]} for bad in ctx.rng.sample([0, -1, 2.5, -3, 1.5, len(sa) + 1, "3"], 4)]
    for ob, sq in ((0, sa), (1, sb)):
        for w in (1, 3, 5, len(sq)):
            items.append({"obj": ob, "seq": sq, "q": "get_linear_sequence_composition", "a": [w]})
            items.append({"obj": ob, "seq": sq, "q": "get_linear_sequence_composition", "a": [w, [["K", "R"], ["S", "T"]]]})
            for name in STAT_CALL.values():
                items.append({"obj": ob, "seq": sq, "q": name, "a": [w]})
    fw, rv = orderswap.run_both(ctx, items, tag="c10swap")
    ctx.evaluations += 2 * len(items)
    for it, a, b in zip(items, fw, rv):
        if not objmodel.same_reply(a["d"], b["d"]):
            ctx.violation("profile-depends-on-earlier-calls", {"seq": it["seq"], "call": it["q"], "args": it["a"],
                                                               "history": "after failing composition calls (windows %r) at the start of the process" % [x["a"][0] for x in items[:4]]},
                          expected=b["d"][:300], actual=a["d"][:300])
    # and the valid default-group replies of the first process are judged like every other (7 rows = the documented groups)
    for it, a in zip(items, fw):
        if it["q"] == "get_linear_sequence_composition" and len(it["a"]) == 1 and isinstance(it["a"][0], int) and 1 <= it["a"][0] <= len(it["seq"]):
            here = objmodel.dcall(lc.SP(it["seq"]).get_linear_sequence_composition, it["a"][0])
            if not objmodel.same_reply(here, a["d"]):
                ctx.violation("profile-depends-on-earlier-calls", {"seq": it["seq"], "args": it["a"]}, expected=here[:300], actual=a["d"][:300])
    verdicts, _ = traces.validate(ctx, "Trace_Queries", trs, {"sqrt": []})
    for tr in trs:
        v = verdicts[tr["tid"]]
        ctx.traces += 1
        if v[0] == "reject":
            e = tr["ev"][v[1] - 1]
            ctx.violation(v[2], {"seq": "".join(tr["seq"]), "after": tr["after"], "w": e.get("w"), "event": e["q"], "stat": e.get("stat"),
                                 "groups": e.get("groups")}, expected="profile of the specification", actual="trace rejected by TLC at event %d" % v[1])
        else:
            for e in tr["ev"]:
                ctx.nontrivial.add(("".join(tr["seq"]), e.get("w")))
    ctx.sample({"trace": {"seq": "".join(trs[0]["seq"]), "ev": [{"q": e["q"], "w": e.get("w"), "stat": e.get("stat")} for e in trs[0]["ev"][:5]]}})
    defaults.reset()
    ctx.assumptions += ["a one-group composition may come back as a 1-D row", "window sizes <= 0 are outside the statement",
                        "1e-9 relative tolerance"]


def replay(ctx, rec):
    lc = common.load_repo(ctx.repo)
    from ..objects import apply_call
    c = rec["case"]
    o = lc.SP(c["seq"])
    for h in c.get("after") or []:
        apply_call(o, h)
    N = len(c["seq"])
    ev = []
    for stat, name in STAT_CALL.items():
        out = common.call(getattr(o, name), c["w"])
        print(name, c["w"], "->", out)
        e = {"q": "linear", "stat": stat, "w": c["w"], "exc": out[0] != "ok", "pos": [], "rv": []}
        if out[0] == "ok":
            pr = as_profile(out[1], N)
            if pr is None:
                ctx.violation("profile-shape", c, actual=out)
                continue
            e["pos"] = [int(p) for p in pr[0]]
            e["rv"] = [common.fx(v) for v in pr[1]]
        ev.append(e)
    verdicts, _ = traces.validate(ctx, "Trace_Queries", [{"tid": 1, "seq": list(c["seq"]), "ev": ev}], {"sqrt": []})
    if verdicts[1][0] == "reject":
        ctx.violation(verdicts[1][2], c, actual="rejected at event %d" % verdicts[1][1])
