"""G02 (growth, not a listed property): backend/keyfile.py -- the key-file parser as a two-phase machine (spec/KeyFile.tla)."""
import os

from .. import common, traces

KEYWORDS = ["SEQFILE", "OUTDIR", "FREEZE_FILE", "BIN_MIN", "BIN_MAX", "NUMBER_OF_BINS", "FLATCHECK_FREQ", "CONVERGENCE", "FLATNESS_CRITERION", "WL_TYPE"]
NUMERIC = KEYWORDS[3:9]


def cps(s):
    return [ord(c) for c in s]


def floatable(s):
    try:
        float(s)
        return True
    except ValueError:
        return False


def run(ctx):
    lc = common.load_repo(ctx.repo)
    from importlib import import_module
    kf = import_module("localcider.backend.keyfile")
    rng = ctx.rng
    ctx.rule = ("(V) random key files (comments, inline comments, blank lines, unknown keywords, double spaces, tabs, missing / non-numeric / "
                "extra values, missing or unparsable sequence files, bad WL types): KeyFile(filename) accepted or rejected and its keyword "
                "table judged by TLC (Trace_KeyFile) against KeyFile.ParseKeyFile")
    d = os.path.join(ctx.work, "kf")
    os.makedirs(d, exist_ok=True)
    good = os.path.join(d, "seq.fasta")
    open(good, "w").write(">x\nKEKEGS\nTYW*\n")
    bad = os.path.join(d, "bad.fasta")
    open(bad, "w").write(">x\nKEK-EGS\n")
    emptyseq = os.path.join(d, "empty.fasta")
    open(emptyseq, "w").write(">x\n")
    frz = os.path.join(d, "frz.txt")
    open(frz, "w").write("1 2\n")
    outdir = os.path.join(d, "out")
    trs = []
    for i in range(ctx.pick(150, 1500)):
        lines = []
        seqfile = rng.choice([good, good, good, bad, emptyseq, os.path.join(d, "missing.fa"), ""])
        vals = {"SEQFILE": seqfile, "OUTDIR": rng.choice([outdir, outdir, ""]), "FREEZE_FILE": rng.choice(["", "", frz, os.path.join(d, "nofrz")]),
                "WL_TYPE": rng.choice(["", "NORMAL", "ZOOM", "zoom", "FAST"])}
        for k in NUMERIC:
            vals[k] = rng.choice(["", "", "0.5", "20", "1e-3", "abc", "1,5", "inf", "1_0", ".5", "--1"])
        order = KEYWORDS[:]
        rng.shuffle(order)
        for k in order:
            if vals[k] == "" and rng.random() < 0.8:
                continue
            style = rng.choice(["plain", "plain", "plain", "inline", "double", "tab", "extra", "novalue", "lead"])
            ln = "%s %s" % (k, vals[k])
            if style == "inline":
                ln += rng.choice([" # comment", "# c", " #"])
            elif style == "double":
                ln = "%s  %s" % (k, vals[k])
            elif style == "tab":
                ln = "%s\t%s" % (k, vals[k])
            elif style == "extra":
                ln += " more"
            elif style == "novalue":
                ln = k
            elif style == "lead":
                ln = "   " + ln + "  \t"
            lines.append(ln)
            if rng.random() < 0.2:
                lines.append(rng.choice(["", "# a comment", "   ", "UNKNOWN 5", "SEQFILE_X y", "#SEQFILE z"]))
        if rng.random() < 0.1 and lines:
            lines.append(rng.choice(lines))          # a repeated keyword: the last one wins
        content = "\n".join(lines) + rng.choice(["\n", "", "\r\n"])
        path = os.path.join(d, "key%d.txt" % (i % 16))
        with open(path, "w", newline="") as f:
            f.write(content)
        out = common.call(kf.KeyFile, path)
        ctx.evaluations += 1
        # platform facts for the value strings that occur
        toks = set()
        for ln in content.replace("\r\n", "\n").replace("\r", "\n").split("\n"):
            for tkn in ln.split("#")[0].split():
                toks.add(tkn)
        e = {"q": "keyfile", "cps": cps(content), "ok": out[0] == "ok", "floatable": [cps(x) for x in sorted(toks) if floatable(x)] or [cps("0")],
             "isfile": [cps(x) for x in sorted(toks) if os.path.isfile(x)] or [cps("/")],
             "seqok": False, "tab": {k: [] for k in KEYWORDS}}
        # did the sequence file named in the (last) SEQFILE line parse to a non-empty sequence?
        sf = None
        for ln in content.replace("\r\n", "\n").split("\n"):
            parts = ln.strip().split("#")[0].strip().split(" ") if ln.strip() and not ln.strip().startswith("#") else []
            if len(parts) == 2 and parts[0].strip() == "SEQFILE":
                sf = parts[1].strip()
        if sf and os.path.isfile(sf):
            pr = common.call(lambda: lc.seqfileparser.SequenceFileParser().parseSeqFile(sf, True))
            e["seqok"] = pr[0] == "ok" and bool(pr[1])
        if out[0] == "ok":
            kw = out[1].KEYWORDS
            for k in KEYWORDS:
                v = kw[k]
                e["tab"][k] = [-1] if (k in NUMERIC and not isinstance(v, str)) else cps(str(v))
        trs.append({"tid": i + 1, "ev": [e], "content": content})
    space = sorted({ord(c) for t in trs for c in t["content"] if c.isspace()} | {32})
    for t in trs:
        t["contentrepr"] = repr(t.pop("content"))[:300]
    verdicts, _ = traces.validate(ctx, "Trace_KeyFile", trs, {"space": space, "names": [cps(k) for k in KEYWORDS], "wltypes": [cps("NORMAL"), cps("ZOOM")]})
    for tr in trs:
        v = verdicts[tr["tid"]]
        ctx.traces += 1
        if v[0] == "reject":
            ctx.violation(v[2], {"keyfile": tr["contentrepr"], "accepted": tr["ev"][0]["ok"]}, actual={k: "".join(chr(c) for c in x if c > 0) for k, x in tr["ev"][0]["tab"].items()})
        else:
            ctx.nontrivial.add(tr["contentrepr"])
    ctx.sample({"keyfile": trs[0]["contentrepr"], "accepted": trs[0]["ev"][0]["ok"]})
    ctx.states = max(ctx.states, 1)
    ctx.transitions = max(ctx.transitions, 1)


def replay(ctx, rec):
    run(ctx)
