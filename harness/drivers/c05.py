"""C05  patterning parameters see only charge classes; reversal / inversion invariant."""
from fractions import Fraction

from .. import common, patterning
from .c07 import scd_exact

OMEGA_X = "PEDKR"
OMEGA_O = "ACFGHILMNQSTVWY"
GETTERS = ["get_kappa", "get_delta", "get_deltaMax", "get_SCD"]


def class_substitute(seq, rng):
    out = []
    for c in seq:
        if rng.random() < 0.6:
            if c in common.POS:
                c = rng.choice(common.POS)
            elif c in common.NEG:
                c = rng.choice(common.NEG)
            else:
                c = rng.choice(common.NEUT)
        out.append(c)
    return "".join(out)


def omega_substitute(seq, rng):
    return "".join((rng.choice(OMEGA_X) if c in OMEGA_X else rng.choice(OMEGA_O)) if rng.random() < 0.6 else c for c in seq)


def invert(seq, rng):
    return "".join(rng.choice(common.NEG) if c in common.POS else rng.choice(common.POS) if c in common.NEG else c for c in seq)


def query(lc, seq, names, limit=300.0):
    o = lc.SP(seq)
    return {n: common.call(getattr(o, n), limit=limit) for n in names}


def same(a, b, bitwise):
    if a[0] != "ok" or b[0] != "ok" or not common.is_number(a[1]) or not common.is_number(b[1]):
        return False
    if bitwise:
        # same charge pattern, same computation: equal up to rounding noise of a possibly different summation order
        return common.close(a[1], Fraction(float(b[1])), tol=Fraction(1, 10**12))
    return common.close(a[1], Fraction(float(b[1])))


def compare_variants(ctx, lc, seq):
    """All clauses of the statement on one sequence (reply-level relations)."""
    rng = ctx.rng
    base = query(lc, seq, GETTERS + ["get_Omega"])
    ctx.evaluations += 1
    sub = class_substitute(seq, rng)
    vs = query(lc, sub, GETTERS)
    for g in GETTERS:
        if not same(base[g], vs[g], True):
            ctx.violation("class-substitution-changes-" + g, {"seq": seq, "variant": sub}, expected=base[g], actual=vs[g])
    osub = omega_substitute(seq, rng)
    vo = query(lc, osub, ["get_Omega"])
    if not same(base["get_Omega"], vo["get_Omega"], True):
        ctx.violation("omega-class-substitution-changes-get_Omega", {"seq": seq, "variant": osub}, expected=base["get_Omega"], actual=vo["get_Omega"])
    for name, var in (("reversal", seq[::-1]), ("inversion", invert(seq, rng))):
        vr = query(lc, var, GETTERS + ["get_Omega"])
        for g in GETTERS + ["get_Omega"]:
            if not same(base[g], vr[g], False):
                ctx.violation("%s-changes-%s" % (name, g), {"seq": seq, "variant": var}, expected=base[g], actual=vr[g])
    return base


def run(ctx):
    lc = common.load_repo(ctx.repo)
    ctx.rule = ("(M) every charge pattern up to MaxLen as a TLC state: ReverseInvariant, InvertInvariant (delta numerator and SCD "
                "coefficients), DMaxSymmetric; (G) every state spelled as residues: kappa, delta, delta-max, SCD equal TLC's exact "
                "values and are bitwise unchanged by random same-class substitutions, unchanged (1e-9) by reversal and charge "
                "inversion; two-letter patterns realised over {PEDKR} vs the other fifteen for Omega; (V) random sequences up to 300 "
                "residues with random substitution sets, base and variants judged by TLC. non-trivial = distinct pattern with >= 1 charge")
    maxlen = ctx.pick(7, 9)
    res = patterning.mc_patterning(ctx, maxlen, ["C05"], checkdef=False)
    ctx.exhaustive = True
    for rec in res.recs:
        x = rec["x"]
        delta, dmax, kappa = patterning.exact_of(rec)
        seq = common.spell(x, ctx.rng)
        base = compare_variants(ctx, lc, seq)
        ctx.traces += 1
        exp = {"get_kappa": kappa, "get_delta": delta, "get_deltaMax": dmax, "get_SCD": scd_exact(rec["scd"], len(x))}
        for g, e in exp.items():
            if base[g][0] != "ok" or not common.is_number(base[g][1]) or not common.close(base[g][1], e):
                ctx.violation("value-" + g, {"seq": seq}, expected=float(e), actual=base[g])
        if 0 not in x:
            # Omega: -1 -> the P/E/D/K/R class, +1 -> the other fifteen
            oseq = "".join(ctx.rng.choice(OMEGA_X) if c < 0 else ctx.rng.choice(OMEGA_O) for c in x)
            out = common.call(lambda: lc.SP(oseq).get_Omega())
            if out[0] != "ok" or not common.is_number(out[1]) or not common.close(out[1], kappa):
                ctx.violation("value-get_Omega", {"seq": oseq}, expected=float(kappa), actual=out)
        if any(x):
            ctx.nontrivial.add(tuple(x))
        ctx.sample({"seq": seq, "reversed": seq[::-1]}, 2)
    # (V)
    nseq = ctx.pick(10, 80)
    maxn = ctx.pick(120, 300)
    seqs = common.random_sequences(ctx.rng, nseq, maxn, 2) + patterning.special_sequences(ctx.rng, ctx.pick(120, 300))[-16:]
    seqs += [common.spell(patterning.arrange(c, ctx.rng), ctx.rng) for c in patterning.composition_grid(ctx.rng, ctx.pick(16, 120))]
    trs = []
    tid = 0
    for s in seqs:
        compare_variants(ctx, lc, s)
        for var in (s, s[::-1], invert(s, ctx.rng), class_substitute(s, ctx.rng)):
            o = lc.SP(var)
            outs = {"kappa": common.call(o.get_kappa), "delta": common.call(o.get_delta), "dmax": common.call(o.get_deltaMax),
                    "scd": common.call(o.get_SCD), "omega": common.call(o.get_Omega)}
            if any(v[0] != "ok" or not common.is_number(v[1]) for v in outs.values()):
                ctx.violation("query-failed", {"seq": var}, actual=outs)
                continue
            tid += 1
            trs.append({"tid": tid, "seq": list(var), "ev": [{"q": q, "r": common.fx(v[1])} for q, v in outs.items()]})
    patterning.judge_traces(ctx, trs, need_sqrt=max(len(s) for s in seqs))
    # the strata of the delta-max search under reversal, inversion and same-class replacement (replies compared with each other; the
    # values themselves are judged for a smaller sample above): 18 and more neutrals with unequal charge counts, lopsided ratios ...
    for comp in patterning.composition_grid(ctx.rng, ctx.pick(40, 400)):
        compare_variants(ctx, lc, common.spell(patterning.arrange(comp, ctx.rng), ctx.rng))
        ctx.evaluations += 1
    # 18 and more neutral residues with unequal charge counts: the regime in which only a few end splits are tried, where an
    # asymmetric shortcut shows as a delta-max that changes under charge inversion
    for _ in range(ctx.pick(16, 80)):
        p_ = ctx.rng.randint(1, 8)
        comp = (p_, p_ + ctx.rng.randint(1, 30), ctx.rng.randint(18, 45))
        if ctx.rng.random() < 0.5:
            comp = (comp[1], comp[0], comp[2])
        compare_variants(ctx, lc, common.spell(patterning.arrange(comp, ctx.rng), ctx.rng))
        ctx.evaluations += 1
    # a lattice of compositions whose counts share decimal digits (1, 2, 11, 12, 21, 22 of either sign with 5 or 40 neutrals), all asked
    # in one process, first every composition and then every charge-inverted twin: whatever the library remembers per composition
    # must tell (11, 2, 40) from (1, 12, 40) from (1, 1, 240)
    lattice = [(p_, n_, z_) for z_ in (5, 40) for p_ in (1, 2, 11, 12, 21, 22) for n_ in (1, 2, 11, 12, 21, 22)]
    ctx.rng.shuffle(lattice)
    asked = []
    for comp in lattice:
        s_ = common.spell(patterning.arrange(comp, ctx.rng), ctx.rng)
        asked.append((comp, s_, query(lc, s_, ["get_deltaMax", "get_kappa"])))
        ctx.evaluations += 1
    for comp, s_, b_ in asked:
        var = invert(s_, ctx.rng)
        bv = query(lc, var, ["get_deltaMax", "get_kappa"])
        ctx.evaluations += 1
        for g in ("get_deltaMax", "get_kappa"):
            if not same(b_[g], bv[g], False):
                ctx.violation("inversion-changes-" + g, {"seq": s_, "variant": var, "composition": comp, "asked": "after %d other compositions in this process" % len(asked)},
                              expected=b_[g], actual=bv[g])
    # lengths next to powers of two (blob counts that are multiples of a chunk size): delta under reversal and inversion
    near = [2 ** k + d for k in (6, 7, 8, 9, 10, 11) for d in (3, 4, 5, 6, 7)]
    for n_ in (near if not ctx.quick else ctx.rng.sample(near, 12) + [517, 518, 1029, 1030]):
        s_ = "".join(ctx.rng.choices("KEDRGSPQ", k=n_ - 8)) + ctx.rng.choice(["EEEEKKKK", "KKKKKKKK", "GGGGEEEE"])
        b_ = query(lc, s_, ["get_delta"])
        ctx.evaluations += 1
        for name, var in (("reversal", s_[::-1]), ("inversion", invert(s_, ctx.rng))):
            bv = query(lc, var, ["get_delta"])
            if not same(b_["get_delta"], bv["get_delta"], False):
                ctx.violation("%s-changes-get_delta" % name, {"seq": s_, "variant": var, "length": n_}, expected=b_["get_delta"], actual=bv["get_delta"])
    # a very long sequence (beyond what TLC evaluates here): reply-level relations only, kappa / delta / delta-max
    big = common.random_sequences(ctx.rng, 1, 2300, 2100)[0]
    b0 = query(lc, big, ["get_kappa", "get_delta", "get_deltaMax"])
    ctx.evaluations += 1
    for name, var in (("reversal", big[::-1]), ("inversion", invert(big, ctx.rng)), ("class-substitution", class_substitute(big, ctx.rng))):
        bv = query(lc, var, ["get_kappa", "get_delta", "get_deltaMax"])
        for g in b0:
            if not same(b0[g], bv[g], name == "class-substitution"):
                ctx.violation("%s-changes-%s" % (name, g), {"seq": big, "variant": var, "length": len(big)}, expected=b0[g], actual=bv[g])
    if not ctx.quick:
        # the size class of giant proteins (a quarter of a minute per SCD in the library itself): reversal and inversion of SCD
        for n_ in (4099, ctx.rng.randint(4100, 4400)):
            g_ = "".join(ctx.rng.choices("KEDRGSPQ", k=n_))
            b_ = query(lc, g_, ["get_SCD"], limit=1800.0)
            ctx.evaluations += 1
            for name, var in (("reversal", g_[::-1]), ("inversion", invert(g_, ctx.rng))):
                bv = query(lc, var, ["get_SCD"], limit=1800.0)
                if not same(b_["get_SCD"], bv["get_SCD"], False):
                    ctx.violation("%s-changes-get_SCD" % name, {"seq": g_[:40] + "...", "length": n_}, expected=b_["get_SCD"], actual=bv["get_SCD"])
    ctx.sample({"trace": {"seq": seqs[0], "ev": ["get_kappa", "get_delta", "get_deltaMax", "get_SCD", "get_Omega"]}})
    ctx.assumptions += ["same-class substitutions must give bitwise-equal floats; reversal/inversion within 1e-9",
                        "kappa out of [0,1] through finding K1 is C01's business; here only equality with the spec value is demanded"]


def replay(ctx, rec):
    lc = common.load_repo(ctx.repo)
    c = rec["case"]
    for s in [c["seq"]] + ([c["variant"]] if "variant" in c else []):
        print(s, query(lc, s, GETTERS + ["get_Omega"]))
    compare_variants(ctx, lc, c["seq"])
    if "variant" in c:
        a, b = query(lc, c["seq"], GETTERS + ["get_Omega"]), query(lc, c["variant"], GETTERS + ["get_Omega"])
        g = rec["clause"].split("-")[-1]
        if g in a and not same(a[g], b[g], False):
            ctx.violation(rec["clause"], c, expected=a[g], actual=b[g])
