"""C18  a Wang-Landau run obeys the WL update rule and its outputs are self-consistent."""
import math
import os
import shutil
from fractions import Fraction

from .. import common, tlc, traces, rngshim

TWO53 = 2 ** 53
WLARITH = {"Pow2N": "<- Pow2NRec", "SumOver": "<- SumOverRec"}       # WLCore's arithmetic parameters (see spec/WangLandau.tla)
SEQS = ["KEKEKEGGKEKE", "EEEEKKKKGGSS", "KKEEKEKEGSGQ", "KEKEGEKEKGKEKE", "DRKEGSDRKEGS", "KKKKEEEEGGGG", "EKGKEKEGEKEK"]
# (nbins, binmin, binmax) as exact decimals (tenths)
REQUESTS = [(4, 0, 10), (2, 0, 10), (5, 0, 10), (3, 4, 10), (2, 5, 10), (3, 7, 10), (6, 2, 8), (3, 1, 4), (1, 5, 10), (10, 0, 10)]


def units(x, kmax):
    """x * 2^kmax as an integer when it is one (1e-6), else a sentinel no specification value equals."""
    v = x * (2 ** kmax)
    r = round(v)
    return int(r) if abs(v - r) <= 1e-6 * max(1.0, abs(v)) else 10 ** 9


def one_run(ctx, lc, tid, seq, req, nflat, flatcrit_milli, conv_j, seed, budget, reuse_dir=False, keep_dir=False):
    """Run run_normal_WL with a recording RNG; return the trace (or None on a machinery-level problem)."""
    import numpy as np
    wl = lc.wang_landau
    outdir = os.path.join(ctx.work, "wl_%d" % (tid if not reuse_dir else tid - 1))
    if not reuse_dir:
        shutil.rmtree(outdir, ignore_errors=True)
    os.makedirs(outdir, exist_ok=True)
    nbins, mn10, mx10 = req
    # the threshold lies strictly between two values of the f schedule (ln f = 2^-k): on a schedule value the code's
    # float comparison f > convergence is a tie that may go either way
    # conv_j = "default": the library's own default threshold exp(1e-6), reached after 20 flat iterations (2^-20 < 1e-6 < 2^-19)
    default_conv = conv_j == "default"
    conv = math.exp(1.4 / 2 ** conv_j) if not default_conv else None
    kmax = conv_j + 1 if not default_conv else 21
    rec = rngshim.Recorder(seed, budget=budget)
    del wl._VERIF_EVENTS[:]
    with rngshim.installed(lc, rec):
        def go():
            if default_conv:
                m = wl.WangLandauMachine(seq, outdir, set(), nbins, mn10 / 10.0, mx10 / 10.0, nflat, flatcrit_milli / 1000.0)
            else:
                m = wl.WangLandauMachine(seq, outdir, set(), nbins, mn10 / 10.0, mx10 / 10.0, nflat, flatcrit_milli / 1000.0, conv)
            return m.run()
        out = common.call(go, limit=600)
    events = list(wl._VERIF_EVENTS)
    del wl._VERIF_EVENTS[:]
    log = rec.take()
    ctx.evaluations += 1
    case = {"seq": seq, "nbins": nbins, "binmin": mn10 / 10.0, "binmax": mx10 / 10.0, "nflat": nflat, "flatcrit": flatcrit_milli / 1000.0,
            "convergence": ("exp(1.4/%d)" % 2 ** conv_j) if not default_conv else "default", "seed": seed}
    budget_hit = out[0] == "exc" and out[1] == "TapeExhausted"
    if out[0] == "timeout":
        ctx.violation("run-does-not-terminate", case)
        return None
    if out[0] == "exc" and not budget_hit:
        ctx.violation("run-raised", case, actual=out[:3])
        return None
    if not events or events[0]["ev"] != "init":
        raise tlc.MachineryError("no hook events: is LOCALCIDER_VERIF honoured by %s?" % lc.wang_landau.__file__)
    # join the acceptance draw u of every step from the RNG log
    rpos = []
    p = 0
    steps = [e for e in events if e["ev"] == "step"]
    for e in steps:
        while p < len(log) and not (log[p][0] == "random" and log[p][1] == e["r"]):
            p += 1
        if p >= len(log):
            raise tlc.MachineryError("step draw r not found in the RNG log")
        rpos.append(p)
        p += 1
    for i, e in enumerate(steps):
        end = rpos[i + 1] if i + 1 < len(steps) else len(log)
        q = end - 1
        while q > rpos[i] and log[q][0] != "random":
            q -= 1
        if q <= rpos[i]:
            if budget_hit and i + 1 == len(steps):
                e["u"] = None
                continue
            # no uniform draw after the one that chose the move: the decision cannot have been an independent Bernoulli(p) trial
            e["u"] = "missing"
            continue
        e["u"] = log[q][1]
    ev = []
    init = events[0]
    cfg = {"nb": init["nbins_actual"], "rmin": init["rmin"], "rmax": init["rmax"], "nbt": init["nbins_target"], "nflat": init["nflatchk"],
           "kmax": kmax, "fnum": flatcrit_milli, "fden": 1000, "conv": units(math.log(init["convergence"]), kmax),
           "reqn": nbins, "reqminnum": mn10, "reqmaxnum": mx10, "reqden": 10}
    cfg["conv"] = int(math.floor(math.log(init["convergence"]) * 2 ** kmax))
    ev.append({"ev": "init", "input": list(init["input"]), "start": list(init["start"]), "startkappa": common.fx(init["kold"]),
               "idx_old": init["idx_old"], "bincts": [common.fx(x) for x in init["bincts"]], "lnf": units(math.log(init["f"]), kmax), "cfg": cfg})
    for e in events[1:]:
        if e["ev"] == "step":
            if e.get("u") is None:
                break
            if e["u"] == "missing":
                if e["skip"] or (e["acceptProb"] >= 1 and e["acc"]):
                    e["u"] = 0.0          # nothing to decide (out of range, or p = 1 and accepted)
                else:
                    ctx.violation("acceptance-decision", dict(case, step=e["nstep"], acceptProb=e["acceptProb"], accepted=e["acc"]),
                                  expected="accepted iff u < p for a uniform draw u made for this decision",
                                  actual="no draw between the proposal and the decision (the draw that chose the move is reused?)")
                    return None
            p_ = Fraction(e["acceptProb"])
            ev.append({"ev": "step", "from": list(e["from"]), "idx_from": e["idx_from"], "prop": list(e["prop"]), "knew": common.fx(e["knew"]),
                       "idx_new": e["idx_new"], "skip": e["skip"], "acc": e["acc"], "cur": list(e["cur"]), "idx_old": e["idx_old"],
                       "nstep": e["nstep"], "lnf": units(math.log(e["f"]), kmax),
                       "lnp": units(math.log(e["acceptProb"]), kmax) if e["acceptProb"] > 0 else 0,
                       "pceil": common.limbs(-((-p_.numerator * TWO53) // p_.denominator)), "u53": common.limbs(int(e["u"] * TWO53)),
                       "g": [common.fx(x) for x in e["g"]], "H": e["H"]})
        elif e["ev"] == "flat":
            ev.append({"ev": "flat", "Hlocal": e["Hlocal"], "nflat": e["nflat"], "niter": e["niter"], "lnf": units(math.log(e["f"]), kmax),
                       "H": e["H"], "g": [common.fx(x) for x in e["g"]]})
        elif e["ev"] == "end":
            ret = out[1] if out[0] == "ok" else None
            try:
                arr = np.asarray(ret, dtype=float)
                okret = arr.shape == (2, cfg["nb"])
            except Exception:
                okret = False
            if not okret:
                ctx.violation("returned-array", case, expected="2 x nbins array", actual=repr(ret)[:200])
                return None
            ev.append({"ev": "end", "g": [common.fx(x) for x in arr[1]], "bincts": [common.fx(x) for x in arr[0]]})
            files = parse_files(ctx, outdir, case)
            if files:
                ev.append(files)
    if budget_hit:
        ev.append({"ev": "budget"})
    if not keep_dir:
        shutil.rmtree(outdir, ignore_errors=True)
    return {"tid": tid, "ev": ev, "case": case, "finished": not budget_hit}


def parse_files(ctx, outdir, case):
    try:
        dos = []
        for ln in open(os.path.join(outdir, "DOS.txt")).read().splitlines()[1:]:
            a, b = ln.split("\t")
            dos.append({"c": common.fx(float(a)), "g": common.fx(float(b))})
        hb = [float(x) for x in open(os.path.join(outdir, "histogram_bins.txt")).read().split()]
        glog = [ln for ln in open(os.path.join(outdir, "glog.txt")).read().splitlines()[1:] if ln.strip()]
        seqlog = []
        for ln in open(os.path.join(outdir, "seqlog.txt")).read().splitlines()[1:]:
            if ln.strip():
                a, b = ln.split("\t")
                seqlog.append({"kappa": common.fx(float(a)), "seq": list(b.strip())})
        return {"ev": "files", "dos": dos, "hbins": [common.fx(x) for x in hb[:len(dos)]], "glog": [1] * len(glog), "seqlog": seqlog}
    except Exception as ex:
        ctx.violation("output-files-unreadable", case, actual=repr(ex))
        return None


def run(ctx):
    lc = common.load_repo(ctx.repo)
    if not getattr(lc.wang_landau, "_VERIF_ON", False):
        raise tlc.MachineryError("the Wang-Landau hook is not enabled (LOCALCIDER_VERIF=1 was set before import?)")
    ctx.rule = ("(proof) TLAPS ProofsWL: the bookkeeping invariant g - gprev = H * ln f and the stop rule are inductive for all configurations, "
                "StaysInside; (M) MC_WL: the Wang-Landau state machine over bins (3 configurations, every start bin, every proposal and every allowed "
                "decision, bounded depth): NeverLeavesWindow, CountRule, FlatRule, NoEarlyReset, ScheduleRule, GIncrement, StopRule; (V) "
                "real runs of run_normal_WL through the guarded hook and a seeded recording RNG (12-14-mers, bin requests incl. "
                "sub-ranges, flat-check periods, flatness criteria, convergence thresholds): every step / flat check / the returned array "
                "/ the DOS, histogram-bin, glog and sequence-log files validated by TLC (Trace_WL): proposal is a rearrangement with its "
                "exact kappa and bin, range test, ln acceptProb = min(0, g_old - g_new), accepted iff u < p (53-bit integers), g/H update, "
                "flat checks exactly at multiples of the period, flat iff every window bin >= criterion x mean, stop iff f <= threshold. "
                "non-trivial = accepted run with at least one flat check")
    # unbounded (TLAPS, ProofsWL over WLCore): GIncrement and StopRule are inductive over WLStep / FlatCheck for every configuration,
    # number of bins and run length; a step never leaves the window
    from .. import tlaps
    ctx.extra["tlaps_obligations_proved"] = tlaps.prove(ctx, "ProofsWL", ["WLCore"])
    cfg = tlc.write_cfg(os.path.join(ctx.work, "MC_WL.cfg"), constants={"MaxDepth": ctx.pick(16, 26), "Pow2N": "<- Pow2NRec", "SumOver": "<- SumOverRec"}, constraints=["Depth"],
                        invariants=["GIncrement", "StopRule", "KBounded"],
                        properties=["NeverLeavesWindow", "CountRule", "FlatRule", "NoEarlyReset", "ScheduleRule"])
    res = tlc.run_tlc("MC_WL", cfg, ctx.work, timeout=7200, continue_=True)
    ctx.add_tlc(res)
    if res.errors or not res.completed or res.distinct < 500:
        raise tlc.MachineryError("MC_WL failed: %s" % (res.errors[:2] or res.stdout[-600:]))
    for v in res.violated:
        ctx.violation("model:" + v, {"module": "MC_WL"})
    if not ctx.quick:
        # the composition of the object state machine and the sampler (LocalCider.tla): the components do not interfere
        res2 = tlc.run_tlc("MC_LocalCider", os.path.join(tlc.SPEC_DIR, "MC_LocalCider.cfg"), ctx.work, timeout=3600, continue_=True, tag="lib")
        ctx.add_tlc(res2)
        if res2.errors or not res2.completed:
            raise tlc.MachineryError("MC_LocalCider failed: %s" % (res2.errors[:2] or res2.stdout[-600:]))
        for v in res2.violated:
            ctx.violation("model:" + v, {"module": "MC_LocalCider"})
    # (V)
    trs = []
    nruns = ctx.pick(10, 60)
    for i in range(nruns):
        seq = SEQS[i % len(SEQS)] if i < 2 * len(SEQS) else common.spell([ctx.rng.choice([1, -1, 0]) for _ in range(ctx.rng.randint(10, 14))], ctx.rng)
        req = REQUESTS[i % len(REQUESTS)]
        nflat = ctx.rng.choice([50, 100, 200, 400])
        fc = ctx.rng.choice([300, 400, 500, 600, 700, 800])
        cj = ctx.rng.choice([2, 3, 4, 5])
        # every fifth run writes into the directory the previous run left behind (its logs must be started afresh)
        if i == 2:
            # many failed flat checks in the first iteration (10 bins over [0,1] are not all reachable for a 12-mer)
            req, nflat, fc = (10, 0, 10), 20, 800
        tr = one_run(ctx, lc, i + 1, seq, req, nflat, fc, cj, ctx.seed * 100 + i, budget=ctx.pick(25000, 60000) if i != 2 else 4000,
                     reuse_dir=(i % 5 == 1), keep_dir=(i % 5 == 0))
        if tr:
            trs.append(tr)
    # the library's default convergence threshold (20 flat iterations) on a small problem
    tr = one_run(ctx, lc, len(trs) + 1 + 100, ctx.rng.choice(SEQS[:3]), (2, 0, 10), 20, 300, "default", ctx.seed * 100 + 77, budget=ctx.pick(60000, 200000))
    if tr:
        if not tr["finished"]:
            ctx.notes.append("the default-threshold run did not finish within the draw budget")
        trs.append(tr)
    # a chain of more than 1000 residues (few steps: every proposal's kappa is re-derived by TLC)
    longseq = "".join(ctx.rng.choices("KEDRGSPQNT", k=ctx.rng.randint(1001, 1060)))
    tr = one_run(ctx, lc, len(trs) + 1 + 100, longseq, (10, 0, 10), 25, 500, 3, ctx.seed * 100 + 78, budget=ctx.pick(500, 2500))
    if tr:
        trs.append(tr)
    cases = {t["tid"]: (t.pop("case"), t.pop("finished")) for t in trs}
    verdicts, _ = traces.validate(ctx, "Trace_WL", trs, spec="TSpec", invariants=["RunInvariants"], timeout=7200, constants=WLARITH)
    fin = 0
    for tr in trs:
        v = verdicts[tr["tid"]]
        ctx.traces += 1
        case, finished = cases[tr["tid"]]
        if v[0] == "reject":
            e = tr["ev"][v[1] - 1]
            brief = {k: e[k] for k in e if k in ("ev", "idx_from", "idx_new", "skip", "acc", "idx_old", "nstep", "lnf", "lnp", "H", "Hlocal", "nflat", "niter")}
            ctx.violation(v[2], dict(case, event_index=v[1], event=brief), expected="the Wang-Landau specification", actual="run rejected by TLC at event %d of %d" % (v[1], len(tr["ev"])))
        else:
            fin += finished
            if any(e["ev"] == "flat" for e in tr["ev"]):
                ctx.nontrivial.add(tr["tid"])
    ctx.extra["runs"] = len(trs)
    ctx.extra["runs_finished"] = fin
    ctx.extra["events_validated"] = sum(len(t["ev"]) for t in trs)
    if trs and len(trs[0]["ev"]) > 1 and trs[0]["ev"][1]["ev"] == "step":
        ctx.sample({"run": cases[trs[0]["tid"]][0], "events": len(trs[0]["ev"]), "first_step": {k: trs[0]["ev"][1][k] for k in ("idx_from", "idx_new", "skip", "acc", "lnp", "H")}})
    ctx.assumptions += ["ln f and ln(acceptProb) are converted to units of 2^-kmax by the harness with a 1e-6 residual check (math.log trusted)",
                        "the statistical quality of the density-of-states estimate and acceptance as a frequency are not decided",
                        "runs that exhaust the draw budget are validated up to that point (no end/files events)"]


def replay(ctx, rec):
    lc = common.load_repo(ctx.repo)
    c = rec["case"]
    print("re-running", {k: c[k] for k in c if k not in ("event",)})
    mn10, mx10 = round(c["binmin"] * 10), round(c["binmax"] * 10)
    cj = "default" if c["convergence"] == "default" else int(math.log2(int(c["convergence"].split("/")[1].rstrip(")"))))
    tr = one_run(ctx, lc, 1, c["seq"], (c["nbins"], mn10, mx10), c["nflat"], round(c["flatcrit"] * 1000), cj, c["seed"], 60000)
    if tr:
        case = tr.pop("case"); tr.pop("finished")
        verdicts, _ = traces.validate(ctx, "Trace_WL", [tr], spec="TSpec", invariants=["RunInvariants"], constants=WLARITH)
        if verdicts[1][0] == "reject":
            ctx.violation(verdicts[1][2], case, actual="rejected at event %d" % verdicts[1][1])
