"""G03 (growth, not a listed property): WangLandauMachine.parseFreezeFile -- the freeze-file parser (spec/FreezeFile.tla).
The verdict is conformance with the method as written ("coded" reading); TLC also reports, as notes, the inputs on which the
reading its documentation shows ("doc") differs: blank lines, bounds compared as text, more than one blank between the bounds."""
import os

from .. import common, traces


def cps(s):
    return [ord(c) for c in s]


def intable(tok):
    try:
        v = int(tok)
        return v if abs(v) <= 100000 else None
    except ValueError:
        return None


def run(ctx):
    lc = common.load_repo(ctx.repo)
    rng = ctx.rng
    ctx.rule = ("(V) random freeze files (hash comments, inline comments, blank lines, several blanks / tabs between the bounds, bounds in "
                "either order and of different digit counts, signs, leading zeros, non-integers, one or three columns, CRLF): "
                "parseFreezeFile accepted or failed and the frozen index set judged by TLC (Trace_Freeze) against "
                "FreezeFile.ParseFreeze(coded); deviations from ParseFreeze(doc) are counted as notes")
    d = os.path.join(ctx.work, "frz")
    os.makedirs(d, exist_ok=True)
    parse = lc.wang_landau.WangLandauMachine.parseFreezeFile
    trs = []
    for i in range(ctx.pick(400, 4000)):
        lines = []
        for _ in range(rng.randint(1, 5)):
            kind = rng.choice(["pair", "pair", "pair", "pair", "comment", "blank", "inline", "multi", "tab", "one", "three", "bad", "rev", "lead"])
            a = rng.choice([1, 2, 3, 5, 9, 10, 11, 19, 20, 99, 100, 7])
            b = a + rng.choice([0, 0, 1, 2, 5, 10, 91])
            sa, sb = str(a), str(b)
            if rng.random() < 0.1:
                sa = rng.choice(["0" + sa, "+" + sa, "-" + sa, sa + ".0", "x" + sa, "0"])
            if kind == "pair":
                ln = "%s %s" % (sa, sb)
            elif kind == "comment":
                ln = rng.choice(["# a comment", "#", "   # indented", "#1 2"])
            elif kind == "blank":
                ln = rng.choice(["", "   ", "\t"])
            elif kind == "inline":
                ln = "%s %s%s" % (sa, sb, rng.choice([" # c", "# c", "   #", " #5 6"]))
            elif kind == "multi":
                ln = "%s%s%s" % (sa, rng.choice(["  ", "   ", " \t", "\t "]), sb)
            elif kind == "tab":
                ln = "%s\t%s" % (sa, sb)
            elif kind == "one":
                ln = sa
            elif kind == "three":
                ln = "%s %s %s" % (sa, sb, rng.choice(["7", "x", "100"]))
            elif kind == "bad":
                ln = "%s %s" % (rng.choice(["a", "1.5", "", "1e1", "ten"]), sb)
            elif kind == "rev":
                ln = "%s %s" % (sb, sa)
            else:
                ln = "  %s %s \t" % (sa, sb)
            lines.append(ln)
        content = rng.choice(["\n", "\r\n"]).join(lines) + rng.choice(["\n", "", "\n"])
        path = os.path.join(d, "f%d.txt" % (i % 8))
        with open(path, "w", newline="") as f:
            f.write(content)
        out = common.call(parse, None, path)
        ctx.evaluations += 1
        toks = set()
        for ln in content.replace("\r\n", "\n").replace("\r", "\n").split("\n"):
            body = ln.strip().split("#")[0].strip()
            toks.update(body.split(" "))
            toks.update(body.split())
        ints = [[cps(tk), intable(tk)] for tk in sorted(toks) if tk != "" and intable(tk) is not None]
        e = {"q": "freeze", "cps": cps(content), "ok": out[0] == "ok", "frozen": [], "ints": ints or [[cps("0"), 0]]}
        if out[0] == "ok":
            try:
                e["frozen"] = sorted(int(x) for x in out[1])
            except Exception:
                ctx.violation("frozen-set-differs", {"file": repr(content)}, expected="a set of indices", actual=repr(out[1])[:200])
                continue
        trs.append({"tid": i + 1, "ev": [e], "content": repr(content)[:300], "err": out[1:3] if out[0] != "ok" else None})
    space = sorted({ord(c) for c in " \t\n\r\x0b\x0c"})
    verdicts, _ = traces.validate(ctx, "Trace_Freeze", [{"tid": t["tid"], "ev": t["ev"]} for t in trs], {"space": space})
    notes = {}
    for n in ctx.last_trace_result.tagged.get("NOTE", []):
        notes[n["what"]] = notes.get(n["what"], 0) + 1
    for tr in trs:
        v = verdicts[tr["tid"]]
        ctx.traces += 1
        if v[0] == "reject":
            ctx.violation(v[2], {"file": tr["content"], "accepted": tr["ev"][0]["ok"], "error": tr["err"]}, actual=tr["ev"][0]["frozen"][:40])
        else:
            ctx.nontrivial.add(tr["content"])
    ctx.extra["deviations_of_the_code_from_its_documentation"] = notes
    ctx.sample({"file": trs[0]["content"], "accepted": trs[0]["ev"][0]["ok"], "frozen": trs[0]["ev"][0]["frozen"][:10]})
    ctx.states = max(ctx.states, 1)
    ctx.transitions = max(ctx.transitions, 1)


def replay(ctx, rec):
    run(ctx)
