"""C02  delta = Das-Pappu blob-averaged charge-asymmetry variance."""
from .. import common, patterning, traces, tlc
from ..objects import warmup, make_object


def run(ctx):
    lc = common.load_repo(ctx.repo)
    ctx.rule = ("(M) every charge pattern up to MaxLen is a TLC state, invariants DeltaIsDefinition (scaled integer form = "
                "definition in exact rationals), DeltaZeroShort, LongChainFormSame (the BigNat form used above 1000 residues); (G) every state replayed into get_delta under 2 random "
                "spellings, expected = TLC's exact rational; (V) random long sequences (some after a random warm-up "
                "history of other calls) judged by TLC in Trace_Queries. non-trivial = distinct charge pattern with "
                "delta > 0")
    maxlen = ctx.pick(8, 10)
    res = patterning.mc_patterning(ctx, maxlen, ["C02"])
    ctx.exhaustive = True
    for rec in res.recs:
        delta, dmax, kappa = patterning.exact_of(rec)
        for k in range(2):
            seq = common.spell(rec["x"], ctx.rng)
            out = common.call(lambda: lc.SP(seq).get_delta())
            ctx.evaluations += 1
            if out[0] != "ok" or not common.is_number(out[1]) or not common.close(out[1], delta):
                ctx.violation("delta-value", {"seq": seq, "pattern": rec["x"]}, expected=delta, actual=out)
            elif delta > 0:
                ctx.nontrivial.add(tuple(rec["x"]))
        ctx.traces += 1
        ctx.sample({"pattern": rec["x"], "delta": str(delta)}, 3)
    # (V) long random sequences, judged by TLC
    nseq = ctx.pick(16, 150)
    maxn = ctx.pick(150, 500)
    seqs = common.random_sequences(ctx.rng, nseq, maxn, 4)
    trs = []
    for i, s in enumerate(seqs):
        o, s, how = make_object(lc, s, ctx.rng)
        hist = ([{"made": how}] if how != "direct" else []) + (warmup(o, ctx.rng) if i % 2 else [])
        out = common.call(o.get_delta)
        ctx.evaluations += 1
        if out[0] != "ok" or not common.is_number(out[1]):
            ctx.violation("delta-value", {"seq": s, "after": hist}, expected="a number", actual=out)
            continue
        trs.append({"tid": i + 1, "seq": list(s), "after": hist, "ev": [{"q": "delta", "r": common.fx(out[1])}]})
    # more than 1000 residues (the specification's BigNat form of the sum): pairs that agree at both ends, charged tracts across
    # 1024-residue boundaries
    base = common.random_sequences(ctx.rng, 1, 1100, 1001)[0]
    longs = [base, base[:3] + "".join(ctx.rng.sample(base[3:-3], len(base) - 6)) + base[-3:],
             base[:1020] + "EEEEEEEE" + base[1028:] + "KKKKGSGS" * 130 + "DDDD",
             "".join(ctx.rng.choices("KEDRGSPQ", k=ctx.pick(2050, 4100)))]
    for s in longs:
        out = common.call(lambda: lc.SP(s).get_delta(), limit=120)
        ctx.evaluations += 1
        if out[0] != "ok" or not common.is_number(out[1]):
            ctx.violation("delta-value", {"seq": s, "length": len(s)}, expected="a number", actual=out)
            continue
        trs.append({"tid": len(seqs) + 1 + longs.index(s), "seq": list(s), "after": [{"made": "%d residues" % len(s)}], "ev": [{"q": "delta", "r": common.fx(out[1])}]})
    verdicts, known = traces.validate(ctx, "Trace_Queries", trs, {"sqrt": []})
    for tr in trs:
        v = verdicts[tr["tid"]]
        ctx.traces += 1
        if v[0] == "reject":
            ctx.violation(v[2], {"seq": "".join(tr["seq"]), "after": tr["after"], "event": tr["ev"][v[1] - 1]["q"]},
                          expected="reply within 1e-9 of the specification's exact value", actual="trace rejected by TLC")
        else:
            ctx.nontrivial.add("".join(tr["seq"]))
    ctx.sample({"trace": {"seq": "".join(trs[0]["seq"]), "after": trs[0]["after"], "ev": ["get_delta"]}})
    ctx.assumptions += ["float replies are compared with the exact rational at relative tolerance 1e-9",
                        "bounded: exhaustive up to length %d, random beyond (length <= %d)" % (maxlen, maxn)]


def replay(ctx, rec):
    lc = common.load_repo(ctx.repo)
    seq = rec["case"]["seq"]
    from fractions import Fraction
    print("replaying get_delta on", seq, "after", rec["case"].get("after"))
    o = lc.SP(seq)
    for c in rec["case"].get("after") or []:
        from ..objects import apply_call
        apply_call(o, c)
    out = common.call(o.get_delta)
    exact = spec_delta(common.charge_pattern(seq))
    print("expected", float(exact), "actual", out)
    if out[0] != "ok" or not common.close(out[1], exact):
        ctx.violation("delta-value", rec["case"], expected=exact, actual=out)


def spec_delta(x):
    """Only for --replay printing: the definition in Fractions."""
    from fractions import Fraction
    N = len(x)
    p = x.count(1)
    n = x.count(-1)
    if p + n == 0:
        return Fraction(0)
    sg = Fraction((p - n) ** 2, N * (p + n))
    tot = Fraction(0)
    for b in (5, 6):
        nb = N - b + 1
        if nb < 1:
            continue
        acc = Fraction(0)
        for i in range(nb):
            bl = x[i:i + b]
            bp, bn = bl.count(1), bl.count(-1)
            bs = Fraction((bp - bn) ** 2, b * (bp + bn)) if bp + bn else Fraction(0)
            acc += (sg - bs) ** 2
        tot += acc / nb
    return tot / 2
