"""C15  read-only queries are history-independent and never change the object."""
import os

from .. import common, tlc, traces, objmodel

KINDS_Q = ["pure", "phospho", "html", "derived", "kappaPhos", "deltaMax", "deltaMaxPerm", "kappa", "composition-default", "composition-user"]
OBJ_INV = ["HistoryIndependent", "CacheSound", "SitesValid", "NoRepeats", "PaletteTotal"]
OBJ_PROP = ["ReadOnlyFrame", "CrossObjectFrame", "SeqImmutable", "SitesOnlyGrowOrClear", "PaletteAtomic"]


def obj_constants(quick, legacy=False):
    return {"ObjIds": "@MCObjIds", "Pool": "@MCPoolQ" if quick else "@MCPool", "SiteArgs": "@MCSiteArgsQ" if quick else "@MCSiteArgs",
            "PalArgs": "@MCPalArgsQ" if quick else "@MCPalArgs", "LegacyCache": legacy}


def write_obj_cfg(path, consts, spec, invariants, properties):
    lines = ["SPECIFICATION %s" % spec, "CONSTANTS"]
    for k, v in consts.items():
        if isinstance(v, str) and v.startswith("@"):
            lines.append("  %s <- %s" % (k, v[1:]))
        else:
            lines.append("  %s = %s" % (k, tlc.tla_value(v)))
    lines += ["INVARIANT %s" % i for i in invariants] + ["PROPERTY %s" % p for p in properties] + ["CHECK_DEADLOCK FALSE"]
    open(path, "w").write("\n".join(lines) + "\n")
    return path


def model_check(ctx, quick, consts=None, invariants=None, properties=None):
    cfg = write_obj_cfg(os.path.join(ctx.work, "MC_Object.cfg"), consts or obj_constants(quick), "Spec", invariants or OBJ_INV, properties or OBJ_PROP)
    res = tlc.run_tlc("MC_Object", cfg, ctx.work, timeout=7200, continue_=True)
    ctx.add_tlc(res)
    if res.errors or not res.completed or res.distinct < 100:
        raise tlc.MachineryError("MC_Object failed: %s" % (res.errors[:2] or res.stdout[-600:]))
    for v in res.violated:
        ctx.violation("model:" + v, {"module": "MC_Object"})
    return res


def histories(ctx, maxhist, quick, consts=None):
    consts = dict(consts) if consts else obj_constants(quick)
    consts["MaxHist"] = maxhist
    cfg = write_obj_cfg(os.path.join(ctx.work, "MC_ObjectHist.cfg"), consts, "HSpec", ["HistoryIndependent", "Emit"], [])
    res = tlc.run_tlc("MC_ObjectHist", cfg, ctx.work, timeout=7200, continue_=True, tag="hist")
    ctx.add_tlc(res)
    if res.errors or not res.completed or not res.recs:
        raise tlc.MachineryError("MC_ObjectHist failed: %s" % (res.errors[:2] or res.stdout[-600:]))
    # TLC enumerates every behaviour; replaying each costs about 50 ms, so beyond a budget a seeded sample is replayed
    budget = 4000 if ctx.quick else 14000
    ctx.extra["behaviours_enumerated_by_TLC"] = ctx.extra.get("behaviours_enumerated_by_TLC", 0) + len(res.recs)
    if len(res.recs) > budget:
        res.recs = ctx.rng.sample(res.recs, budget)
        ctx.extra["behaviours_replayed_is_a_sample"] = True
    return res


def compare_post(ctx, objs, defaults, post, hist_so_far):
    for i, po in enumerate(post["objs"], start=1):
        if not po["alive"]:
            continue
        if i not in objs:
            ctx.violation("post-alive", {"history": hist_so_far}, expected=po, actual="no object")
            return False
        pr = objmodel.project(objs[i])
        for key in ("dmaxSet", "permSet"):
            if pr[key] is not None and pr[key] != po[key]:
                note_conformance(ctx, "hidden cache flag %s differs from the specification's automaton after %s" % (key, hist_so_far[-1]["call"]))
        for key in ("seq", "sites", "pal"):
            if pr[key] is not None and pr[key] != po[key]:
                ctx.violation("post-" + {"seq": "sequence-changed", "sites": "phosphosites", "pal": "palette", "dmaxSet": "cache-state", "permSet": "cache-state"}[key],
                              {"history": hist_so_far, "object": i}, expected=po[key], actual=pr[key])
                return False
    if defaults.sp_groups() != post["spGrps"]:
        note_conformance(ctx, "shared default argument holds %d groups, specification says %d" % (defaults.sp_groups(), post["spGrps"]))
    return True


def note_conformance(ctx, text):
    """Hidden state that deviates from the specification's automaton is reported, not alarmed on: the property
    only speaks about observable replies and the stored sequence / phosphosites."""
    c = ctx.extra.setdefault("conformance_notes", {})
    c[text] = c.get(text, 0) + 1


TABLE = {}


def consistent(ctx, o, kind, name, real, hist):
    """The same query on the same (sequence, sites, palette) must give the same reply in every history of this run."""
    pr = objmodel.project(o)
    key = ("".join(pr["seq"]), tuple(pr["sites"]), tuple(sorted((pr["pal"] or {}).items())), kind, name)
    if key in TABLE and not objmodel.same_reply(TABLE[key][0], real):
        ctx.violation("reply-depends-on-history", {"history": hist, "other_history": TABLE[key][1], "seq": key[0], "query": name or kind},
                      expected=TABLE[key][0][:300], actual=real[:300])
        return False
    TABLE.setdefault(key, (real, hist))
    return True


def pristine_check(ctx, limit=None):
    """A sample of the replies seen in this run against the same query made in a pristine process (first-call-wins caches
    shared by all objects are invisible to the twin and to the run-wide table)."""
    import json
    import subprocess
    import sys
    limit = limit or ctx.pick(250, 1500)
    keys = [k for k in TABLE if k[4] is not None or k[3] not in ("pure", "phospho", "derived")]
    ctx.rng.shuffle(keys)
    keys = keys[:limit]
    if not keys:
        return
    os.makedirs(ctx.work, exist_ok=True)
    inp, outp = os.path.join(ctx.work, "pristine_in.json"), os.path.join(ctx.work, "pristine_out.json")
    json.dump([{"seq": k[0], "sites": list(k[1]), "pal": dict(k[2]), "kind": k[3], "name": k[4]} for k in keys], open(inp, "w"))
    p = subprocess.run([sys.executable, "-m", "harness.pristine", ctx.repo, inp, outp], cwd=common.VERIF, stdout=subprocess.PIPE,
                       stderr=subprocess.STDOUT, text=True, timeout=3600)
    if p.returncode != 0 or not os.path.exists(outp):
        raise tlc.MachineryError("pristine reference process failed: " + p.stdout[-400:])
    ref = json.load(open(outp))
    for k, d in zip(keys, ref):
        ctx.evaluations += 1
        if d.startswith("harness-exception:"):
            raise tlc.MachineryError("pristine reference: " + d)
        if not objmodel.same_reply(TABLE[k][0], d):
            ctx.violation("reply-depends-on-history", {"seq": k[0], "sites": list(k[1]), "query": k[4] or k[3], "history": TABLE[k][1],
                                                       "other_history": "a pristine process: fresh object, this query only"},
                          expected=d[:300], actual=TABLE[k][0][:300])
    ctx.extra["replies_compared_with_a_pristine_process"] = len(keys)


PROBES = [("pure", None), ("phospho", None), ("html", None), ("kappa", None), ("deltaMaxPerm", "np.bool_"), ("deltaMaxPerm", None)]


def probe(ctx, lc, defaults, objs, hist, probes=None):
    """After a history: every live object answers a final battery like its fresh twin."""
    for i, o in objs.items():
        for kind, name in (probes if probes is not None else PROBES):
            real = objmodel.one_call(o, kind, name)
            fresh = objmodel.fresh_reply(lc, defaults, o, kind, name)
            if not objmodel.same_reply(real, fresh):
                ctx.violation("reply-differs-from-fresh-object", {"history": hist, "object": i, "probe": kind}, expected=fresh[:400], actual=real[:400])
                return False
            if not consistent(ctx, o, kind, name, real, hist):
                return False
    return True


def brief(h):
    return [{"call": s["call"], "obj": s["obj"], "arg": s["arg"] if not isinstance(s["arg"], dict) else "palette(%d keys)" % len(s["arg"])} for s in h]


def replay_history(ctx, lc, defaults, hist, probes=None, after_step=None):
    """Step a TLC behaviour through real objects, comparing replies with a fresh twin and the abstract state after each action."""
    defaults.reset()
    objs = {}
    for k, step in enumerate(hist):
        call, o, arg = step["call"], step["obj"], step["arg"]
        sofar = brief(hist[:k + 1])
        ctx.evaluations += 1
        if call == "construct":
            out = common.call(lc.SP, "".join(arg))
            if out[0] != "ok":
                ctx.violation("construct-failed", {"history": sofar}, actual=out)
                return
            objs[o] = out[1]
        elif call in KINDS_Q:
            real = objmodel.one_call(objs[o], call)
            fresh = objmodel.fresh_reply(lc, defaults, objs[o], call)
            if not objmodel.same_reply(real, fresh):
                ctx.violation("reply-differs-from-fresh-object", {"history": sofar, "object": o}, expected=fresh[:400], actual=real[:400])
                return
            if not consistent(ctx, objs[o], call, None, real, sofar):
                return
        elif call == "set_phosphosites":
            common.call(objs[o].set_phosphosites, list(arg))
        elif call == "clear_phosphosites":
            common.call(objs[o].clear_phosphosites)
        elif call == "set_palette":
            d = dict(arg)
            common.call(objs[o].set_HTMLColorResiduePalette, d)
            d["A"] = "white"            # the caller changes its own dictionary afterwards
        elif call == "shuffle":
            child = step["post"]["objs"][arg - 1]["seq"]
            out = objmodel.shuffle_to(lc, objs[o], "".join(child))
            if out[0] != "ok":
                ctx.violation("shuffle-failed", {"history": sofar}, actual=out)
                return
            objs[arg] = out[1]
        if not compare_post(ctx, objs, defaults, step["post"], sofar):
            return
        if after_step:
            after_step(objs, step, sofar)
    if not probe(ctx, lc, defaults, objs, brief(hist), probes):
        return
    ctx.traces += 1


def random_palette(rng):
    kind = rng.choice(["valid", "valid", "extra", "missing", "missing+extra", "badcolour", "case", "nonstring"])
    d = {a: rng.choice(objmodel.COLOURS) for a in common.AA}
    if kind == "extra":
        d["X"] = "pink"
    elif kind == "missing":
        del d[rng.choice(common.AA)]
    elif kind == "missing+extra":
        gone = rng.choice(common.AA)
        del d[gone]
        d[gone.lower()] = "red"
        if rng.random() < 0.5:
            d["X"] = "blue"
            d["B"] = "green"
    elif kind == "badcolour":
        d[rng.choice(common.AA)] = rng.choice(["pink", "", "rgb(1,2,3)", "#ff0000", "lack", "ray", "e", "red silver", " red", "red ", "gree", "red\n", "\nred", "blue\r\n", "red\t", "green\x0b", "\u00a0red"])
    elif kind == "case":
        d[rng.choice(common.AA)] = rng.choice(["Red", "BLUE"])
    elif kind == "nonstring":
        d[rng.choice(common.AA)] = 5
    return d


def pal_json(d):
    return {k: (v if isinstance(v, str) and v else "?" + repr(v)) for k, v in d.items() if isinstance(k, str) and k}


def record_history(ctx, lc, defaults, tid, nobj, ncalls, maxlen=30):
    """(V) a random history on live objects; returns the trace for Trace_Object."""
    rng = ctx.rng
    defaults.reset()
    objs = {}
    ev = []

    def post():
        return {"objs": [dict(objmodel.project(objs[i]), pal=dict(objmodel.project(objs[i])["pal"])) if i in objs else {"alive": False}
                         for i in range(1, nobj + 1)], "spGrps": defaults.sp_groups()}
    for _ in range(ncalls):
        o = rng.randint(1, nobj)
        if o not in objs or rng.random() < 0.03:
            s = common.random_sequences(rng, 1, maxlen, 5)[0]
            if rng.random() < 0.15:
                # rare classes: kappa clamped from (1, 1.1), kappa beyond 1.1 (finding K1), delta-max 0, single residue
                s = rng.choice(["DRKKGSE", "EEKKKGKE", "KGEEEEGK", "EKGKGKE", "KEEEKEK", "KEEEEK", "KKKKK", "GSGS", "K", "EKSYT"])
            elif objs and rng.random() < 0.5:
                # same composition as a live object, other residues / order
                base = list(common.charge_pattern(rng.choice(list(objs.values())).get_sequence()))
                rng.shuffle(base)
                s = common.spell(base, rng)
            objs[o] = lc.SP(s)
            ev.append({"kind": "construct", "obj": o, "seq": list(s), "post": post()})
            continue
        r = rng.random()
        ctx.evaluations += 1
        if r < 0.72:
            kind = rng.choice(KINDS_Q + ["pure", "pure", "deltaMax", "kappa", "deltaMaxPerm", "derived"])
            name = None
            if kind == "pure":
                name = rng.choice(objmodel.PURE_NAMES)
            elif kind == "phospho":
                name = rng.choice(objmodel.PHOSPHO_NAMES)
            elif kind == "derived":
                name = rng.choice(objmodel.DERIVED_NAMES)
            elif kind == "deltaMaxPerm":
                name = rng.choice(objmodel.PERM_FLAGS)
            real = objmodel.one_call(objs[o], kind, name)
            fresh = objmodel.fresh_reply(lc, defaults, objs[o], kind, name)
            consistent(ctx, objs[o], kind, name, real, "random history %d" % tid)
            if objmodel.same_reply(real, fresh):
                real = fresh            # the same reply up to float rounding noise: TLC compares the digests exactly
            ev.append({"kind": kind, "obj": o, "name": name or kind, "reply": real, "fresh": fresh, "post": post()})
        elif r < 0.82:
            N = len(objs[o])
            arg = [rng.randint(-2, N + 3) for _ in range(rng.randint(0, 4))]
            form = rng.choice(["list", "tuple", "int", "generator"])
            if form == "int" and arg:
                arg = arg[:1]
                common.call(objs[o].set_phosphosites, arg[0])
            elif form == "tuple":
                common.call(objs[o].set_phosphosites, tuple(arg))
            elif form == "generator":
                common.call(objs[o].set_phosphosites, (x for x in list(arg)))
            else:
                common.call(objs[o].set_phosphosites, list(arg))
            ev.append({"kind": "set_phosphosites", "obj": o, "arg": arg, "post": post()})
        elif r < 0.86:
            common.call(objs[o].clear_phosphosites)
            ev.append({"kind": "clear_phosphosites", "obj": o, "post": post()})
        elif r < 0.93:
            d = random_palette(rng)
            out = common.call(objs[o].set_HTMLColorResiduePalette, d)
            j = pal_json(d)
            d[rng.choice(common.AA)] = "white"
            d.pop(rng.choice(common.AA), None)
            ev.append({"kind": "set_palette", "obj": o, "arg": j, "accepted": out[0] == "ok", "post": post()})
        else:
            o2 = rng.choice([i for i in range(1, nobj + 1) if i != o])
            frozen = set(rng.sample(range(len(objs[o])), rng.randint(0, min(2, len(objs[o])))))
            out = common.call(objs[o].get_shuffled_sequence, frozen)
            if out[0] != "ok":
                ctx.violation("shuffle-failed", {"seq": objs[o].get_sequence(), "frozen": sorted(frozen)}, actual=out)
                continue
            objs[o2] = out[1]
            ev.append({"kind": "shuffle", "obj": o, "child": o2, "childseq": list(out[1].get_sequence()), "post": post()})
    return {"tid": tid, "ev": ev}


def scripted_histories(ctx, lc, defaults, tid0):
    """Short scripted histories across a shuffle: a query on the parent, the child made by get_shuffled_sequence, the same query
    on the child (whatever the parent remembered must not reach the child's replies) and on the parent again."""
    rng = ctx.rng
    trs = []
    seqs = ["DRKKGSE", "KRKRDEDEGSGS", "EKRDGSTQ", "KKRREEDDNQ"] + common.random_sequences(rng, ctx.pick(8, 40), 30, 6)
    for n_, s in enumerate(seqs):
        defaults.reset()
        objs = {1: lc.SP(s)}
        ev = []

        def post():
            return {"objs": [dict(objmodel.project(objs[i])) if i in objs else {"alive": False} for i in (1, 2, 3)], "spGrps": defaults.sp_groups()}

        def ask(o, kind, name):
            real = objmodel.one_call(objs[o], kind, name)
            fresh = objmodel.fresh_reply(lc, defaults, objs[o], kind, name)
            ctx.evaluations += 1
            ev.append({"kind": kind, "obj": o, "name": name or kind, "reply": fresh if objmodel.same_reply(real, fresh) else real, "fresh": fresh, "post": post()})
        ev.append({"kind": "construct", "obj": 1, "seq": list(s), "post": post()})
        kind, name = rng.choice([("deltaMaxPerm", rng.choice(objmodel.PERM_FLAGS)), ("deltaMaxPerm", None), ("kappa", None), ("deltaMax", None),
                                 ("derived", "get_Omega"), ("pure", "get_isoelectric_point"), ("html", None)])
        if n_ % 2 == 0:
            kind, name = "deltaMaxPerm", rng.choice(objmodel.PERM_FLAGS)
        ask(1, kind, name)
        frozen = set(rng.sample(range(len(s)), rng.randint(0, 2)))
        out = common.call(objs[1].get_shuffled_sequence, frozen)
        if out[0] != "ok":
            continue
        objs[2] = out[1]
        ev.append({"kind": "shuffle", "obj": 1, "child": 2, "childseq": list(out[1].get_sequence()), "post": post()})
        ask(2, kind, name)
        ask(2, "deltaMaxPerm", None)
        ask(1, kind, name)
        trs.append({"tid": tid0 + len(trs), "ev": ev})
    # phosphosites set, the derived values read, the sites cleared and as many *other* sites set, the derived values read again
    for s in ["GSTYSGKE", "KSEETKGY", "SKTEYGSE"] + ["".join(rng.choice("STYKEGDR") for _ in range(rng.randint(8, 24))) for _ in range(ctx.pick(4, 20))]:
        sty = [k + 1 for k, ch in enumerate(s) if ch in "STY"]
        if len(sty) < 2:
            continue
        defaults.reset()
        objs = {1: lc.SP(s)}
        ev = []

        def post():
            return {"objs": [dict(objmodel.project(objs[i])) if i in objs else {"alive": False} for i in (1, 2, 3)], "spGrps": defaults.sp_groups()}

        def ask(o, kind, name):
            real = objmodel.one_call(objs[o], kind, name)
            fresh = objmodel.fresh_reply(lc, defaults, objs[o], kind, name)
            ctx.evaluations += 1
            ev.append({"kind": kind, "obj": o, "name": name or kind, "reply": fresh if objmodel.same_reply(real, fresh) else real, "fresh": fresh, "post": post()})
        ev.append({"kind": "construct", "obj": 1, "seq": list(s), "post": post()})
        k_ = rng.randint(1, min(2, len(sty) // 2))
        s1 = rng.sample(sty, k_)
        s2 = rng.sample([x for x in sty if x not in s1], k_)
        for sites_ in (s1, s2, s1):
            common.call(objs[1].clear_phosphosites)
            ev.append({"kind": "clear_phosphosites", "obj": 1, "post": post()})
            common.call(objs[1].set_phosphosites, list(sites_))
            ev.append({"kind": "set_phosphosites", "obj": 1, "arg": list(sites_), "post": post()})
            ask(1, "kappaPhos", None)
            ask(1, "derived", "get_full_phosphostatus_kappa_distribution")
            ask(1, "phospho", "get_phosphosequence")
        trs.append({"tid": tid0 + len(trs), "ev": ev})
    return trs


def validate_histories(ctx, trs, nobj):
    consts = {"ObjIds": set(range(1, nobj + 1)), "Pool": set(), "SiteArgs": set(), "PalArgs": set(), "LegacyCache": False}
    verdicts, _ = traces.validate(ctx, "Trace_Object", trs, constants=consts, spec="TSpec", invariants=["TraceInvariants"])
    for n in ctx.last_trace_result.tagged.get("NOTE", []):
        note_conformance(ctx, "trace: hidden %s differs from the specification's automaton" % n["what"])
    for tr in trs:
        v = verdicts[tr["tid"]]
        ctx.traces += 1
        if v[0] == "reject":
            e = tr["ev"][v[1] - 1]
            hist = [{"kind": x["kind"], "obj": x["obj"], "name": x.get("name"), "arg": x.get("arg") if not isinstance(x.get("arg"), dict) else "palette"} for x in tr["ev"][:v[1]]]
            ctx.violation(v[2], {"history": hist[-8:], "event": v[1], "reply": (e.get("reply") or "")[:300], "fresh": (e.get("fresh") or "")[:300]},
                          expected="the specification's post-state; reply equal to the fresh twin's", actual=e.get("post"))
        else:
            ctx.nontrivial.add(tr["tid"])


def order_swap(ctx, lc):
    """Dense families of questions asked in two pristine processes in opposite orders (harness/orderswap.py): many distinct
    arguments on one object and then earlier ones again; a lattice of near-identical compositions on separate objects;
    neighbouring compositions of one length.  The two replies to every question are one event of a Trace_Object history
    (reply / fresh) validated by TLC; the replies of the first process to repeated questions are compared as well."""
    from .. import orderswap
    rng = ctx.rng
    items = []
    s1 = common.random_sequences(rng, 1, 160, 120)[0] + "KRHDECYSTP"
    s2 = common.random_sequences(rng, 1, 48, 36)[0]
    first = []
    for w in range(1, 101):
        for q in ("get_linear_NCPR", "get_linear_FCR", "get_linear_sigma", "get_linear_hydropathy"):
            first.append({"obj": 0, "seq": s1, "q": q, "a": [w]})
    for k in range(0, 281):
        for q in ("get_FCR", "get_NCPR", "get_mean_net_charge"):
            first.append({"obj": 0, "seq": s1, "q": q, "a": [k * 0.05]})
    for w in range(2, 62):
        first.append({"obj": 0, "seq": s1, "q": "get_linear_complexity", "a": [rng.choice(["WF", "LC", "LZW"]), rng.choice([20, 8, 3]), {}, w, rng.choice([1, 3])]})
        first.append({"obj": 0, "seq": s1, "q": "get_linear_sequence_composition", "a": [w, [["K", "R"], [rng.choice("STYG")]]]})
    for size in (2, 3, 4, 5, 6, 8, 10, 11, 12, 15, 18, 20):
        first.append({"obj": 0, "seq": s1, "q": "get_reduced_alphabet_sequence", "a": [size]})
    # several different user alphabets on the same sequence (and on a second object with the same sequence): whichever is asked
    # first must not decide the others
    uas = [dict(objmodel.UA1), dict(objmodel.UA2), {a_: ("K" if a_ in "KRDE" else "G") for a_ in common.AA}, {a_: a_ for a_ in common.AA}]
    for ob_ in (0, 2):
        for ua_ in uas:
            first.append({"obj": ob_, "seq": s1, "q": "get_reduced_alphabet_sequence", "a": [20, ua_]})
            first.append({"obj": ob_, "seq": s1, "q": "get_linear_complexity", "a": [rng.choice(["WF", "LC", "LZW"]), 20, ua_, rng.randint(3, 9), 1]})
    for _ in range(ctx.pick(20, 80)):
        g1 = rng.sample(common.AA, rng.randint(1, 4))
        g2 = rng.sample([a for a in common.AA if a not in g1], rng.randint(1, 4))
        first.append({"obj": 1, "seq": s2, "q": "get_kappa_X", "a": [g1, g2]})
    rng.shuffle(first)
    for k_ in (0, 1):                    # the projection right after construction is logged with each object's first question
        nx = next(i for i, it in enumerate(first) if it["obj"] == k_)
        first[nx] = dict(first[nx], post=True)
    again = [dict(it, post=True) for it in rng.sample(first, ctx.pick(300, 1200))]
    again += [{"obj": 0, "seq": s1, "q": q, "a": [], "post": True} for q in ("get_linear_NCPR", "get_linear_FCR", "get_linear_sigma", "get_kappa", "get_isoelectric_point")]
    nfirst = len(first)
    items = first + again
    # a lattice of two-residue compositions (one positive, one negative titratable residue), each its own object
    a_, b_ = rng.choice("KRH"), rng.choice("DECY")
    lat0 = len(items)
    top = ctx.pick(59, 75)
    for i in range(1, top + 1):
        for j in range(1, top + 1):
            x = list(a_ * i + b_ * j + "G" * rng.choice([0, 0, 1, 3]))
            rng.shuffle(x)
            items.append({"obj": "L%d,%d" % (i, j), "seq": "".join(x), "q": "get_isoelectric_point", "a": [], "post": (i * j) % 7 == 0, "drop": True})
    # neighbouring compositions of one length: delta-max and kappa
    nb0 = len(items)
    for N in (rng.randint(120, 160), 200):
        p0, n0 = rng.randint(N // 10, N // 5), rng.randint(N // 10, N // 4)
        for dp in range(0, ctx.pick(3, 5)):
            for dn in range(0, ctx.pick(3, 5)):
                x = [1] * (p0 + dp) + [-1] * (n0 + dn) + [0] * (N - p0 - n0 - dp - dn)
                rng.shuffle(x)
                sq = common.spell(x, rng)
                items.append({"obj": "N%d,%d,%d" % (N, dp, dn), "seq": sq, "q": "get_deltaMax", "a": [], "post": True, "block": "N%d,%d,%d" % (N, dp, dn)})
                items.append({"obj": "N%d,%d,%d" % (N, dp, dn), "seq": sq, "q": "get_kappa", "a": [], "post": True, "drop": True, "block": "N%d,%d,%d" % (N, dp, dn)})
    fw, rv = orderswap.run_both(ctx, items)
    ctx.evaluations += 2 * len(items)
    # the first process: a repeated question gets the reply it got the first time
    seen = {}
    for it, r in zip(items[:nfirst], fw[:nfirst]):
        seen[(it["obj"], it["q"], repr(it["a"]))] = r["d"]
    for it, r in zip(items[nfirst:lat0], fw[nfirst:lat0]):
        k = (it["obj"], it["q"], repr(it["a"]))
        if k in seen and not objmodel.same_reply(seen[k], r["d"]):
            ctx.violation("reply-depends-on-history", {"seq": it["seq"], "query": it["q"], "args": it["a"], "history": "the same question earlier on this object, %d other questions between" % nfirst},
                          expected=seen[k][:300], actual=r["d"][:300])
    # every question: the two processes agree (validated as Trace_Object histories)
    trs = []
    byobj = {}
    for n_, (it, a, b) in enumerate(zip(items, fw, rv)):
        if not objmodel.same_reply(a["d"], b["d"]):
            ctx.violation("reply-depends-on-history", {"seq": it["seq"], "query": it["q"], "args": it["a"], "history": "question %d of %d in one pristine process" % (n_ + 1, len(items)),
                                                       "other_history": "the same list worked through backwards in another pristine process"},
                          expected=b["d"][:300], actual=a["d"][:300])
        if not it.get("post"):
            continue
        tr = byobj.get(it["obj"])
        if tr is None:
            src = a if a.get("post0") else b            # whichever process built the object at this question
            if not src.get("post0"):
                continue
            tr = byobj[it["obj"]] = {"tid": len(trs) + 1, "ev": [{"kind": "construct", "obj": 1, "seq": list(it["seq"]), "post": {"objs": [src["post0"]], "spGrps": 0}}]}
            trs.append(tr)
        reply = b["d"] if objmodel.same_reply(a["d"], b["d"]) else a["d"]
        kind = {"get_deltaMax": "deltaMax", "get_kappa": "kappa"}.get(it["q"], "pure")
        tr["ev"].append({"kind": kind, "obj": 1, "name": "%s%r" % (it["q"], tuple(it["a"])), "reply": reply, "fresh": b["d"], "post": {"objs": [a["post"]], "spGrps": 0}})
    validate_histories(ctx, trs, 1)
    ctx.extra["questions_asked_in_two_orders"] = len(items)
    ctx.extra["lattice"] = "%s^i %s^j, i, j <= %d" % (a_, b_, top)


def run(ctx):
    lc = common.load_repo(ctx.repo)
    defaults = objmodel.Defaults(lc)
    ctx.rule = ("(M) MC_Object: the object state machine (2 objects, pool of sequences, every query kind, both delta-max caches and the "
                "shared default argument modelled as coded, phosphosite / palette mutators, children made by shuffling): full reachable "
                "graph, HistoryIndependent, CacheSound, ReadOnlyFrame, CrossObjectFrame (+ C16/C20 invariants); (G) every behaviour of "
                "length MaxHist printed by TLC and stepped through real objects: after each action the abstract state (sequence, sites, "
                "palette, cache flags, shared default) must match and every query reply (a battery of concrete calls per kind) must "
                "equal a freshly constructed twin's; (V) random histories of 30-200 calls on 3 live objects with arbitrary arguments, "
                "recorded and validated by TLC (Trace_Object). non-trivial = distinct behaviour / accepted history")
    model_check(ctx, ctx.quick)
    res = histories(ctx, ctx.pick(3, 4), True)
    ctx.exhaustive = True
    for rec in res.recs:
        if rec["hist"][0]["call"] != "construct":
            continue
        replay_history(ctx, lc, defaults, rec["hist"])
        ctx.nontrivial.add(repr(brief(rec["hist"])))
    ctx.sample({"behaviour": brief(res.recs[len(res.recs) // 2]["hist"])})
    trs = [record_history(ctx, lc, defaults, i + 1, 3, ctx.rng.randint(30, ctx.pick(80, 200))) for i in range(ctx.pick(12, 80))]
    # one long history (hundreds of calls on the same three objects) (hundreds of calls on the same objects)
    trs.append(record_history(ctx, lc, defaults, len(trs) + 1, 3, ctx.pick(500, 2000)))
    trs += scripted_histories(ctx, lc, defaults, len(trs) + 1)
    validate_histories(ctx, trs, 3)
    ctx.sample({"trace": [{"kind": e["kind"], "obj": e["obj"], "name": e.get("name")} for e in trs[0]["ev"][:8]]})
    pristine_check(ctx)
    order_swap(ctx, lc)
    defaults.reset()
    ctx.assumptions += ["reply digests are compared exactly (same float bits) with a twin built from the same sequence, sites and palette in a fresh default-argument state",
                        "hidden state is read through plain attributes (SeqObj.dmax, seqDeltaMax, phosphosites, aminoAcidColorMap, __defaults__)"]


def replay(ctx, rec):
    lc = common.load_repo(ctx.repo)
    defaults = objmodel.Defaults(lc)
    print("the recorded history:", rec["case"].get("history"))
    print("histories are regenerated from TLC; re-running the behaviours phase")
    res = histories(ctx, 3, True)
    for r in res.recs:
        if r["hist"][0]["call"] == "construct":
            replay_history(ctx, lc, defaults, r["hist"])
