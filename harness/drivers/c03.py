"""C03  delta-max is attained, composition-only, and equals the documented search."""
import os
from fractions import Fraction

from .. import common, patterning, tlc
from ..objects import warmup


def mc_deltamax(ctx, maxn):
    cfg = tlc.write_cfg(os.path.join(ctx.work, "MC_DeltaMax.cfg"), constants={"MaxN": maxn, "Slab": True},
                        invariants=["DMaxSymmetric", "PermAttains", "RegimePartition", "FamilyMirror", "ZeroWhenTrivial",
                                    "TieAgreesNoNeutral", "Emit"])
    res = tlc.run_tlc("MC_DeltaMax", cfg, ctx.work, timeout=7200, continue_=True)
    ctx.add_tlc(res)
    if res.errors or not res.completed or len(res.recs) != res.distinct - 1:
        raise tlc.MachineryError("MC_DeltaMax failed: %s" % (res.errors[:2] or res.stdout[-800:]))
    for v in res.violated:
        ctx.violation("model:" + v, {"module": "MC_DeltaMax", "MaxN": maxn})
    # vacuity guard: the domain that was meant is the domain that was explored
    want = {(p, n, z) for p in range(maxn + 1) for n in range(maxn + 1 - p) for z in range(maxn + 1 - p - n) if p + n + z >= 1}
    want |= {(p, n, z) for z in range(15, 20) for p in range(9) for n in range(9) if (p <= 2 and n <= 8) or (n <= 2 and p <= 8)}
    got = {(r["p"], r["n"], r["z"]) for r in res.recs}
    if got != want:
        raise tlc.MachineryError("MC_DeltaMax explored %d compositions, %d were meant (missing e.g. %s)" % (len(got), len(want), sorted(want - got)[:3]))
    return res


def trace_for(lc, ctx, tid, seq, hist_mode):
    o = lc.SP(seq)
    hist = []
    if hist_mode == 1:
        hist = [{"call": "get_kappa"}]
        common.call(o.get_kappa)
    elif hist_mode == 2:
        hist = warmup(o, ctx.rng)
    ev = []
    a = common.call(o.get_deltaMax)
    b = common.call(o.get_deltaMax, True)
    c = common.call(o.get_deltaMax)
    ctx.evaluations += 1
    case = {"seq": seq, "after": hist}
    if a[0] != "ok" or not common.is_number(a[1]):
        ctx.violation("deltamax-failed", case, actual=a)
        return None
    ev.append({"q": "dmax", "r": common.fx(a[1])})
    if b[0] != "ok" or not isinstance(b[1], tuple) or len(b[1]) != 2 or not common.is_number(b[1][0]) \
            or not isinstance(b[1][1], str) or any(ch not in common.AA for ch in b[1][1]):
        ctx.violation("deltamax-permutant-missing", case, expected="(value, sequence)", actual=b)
        return None
    ev.append({"q": "dmaxperm", "r": common.fx(b[1][0]), "perm": list(b[1][1])})
    if c[0] != "ok" or not common.is_number(c[1]) or not common.close(c[1], Fraction(float(a[1])), tol=Fraction(1, 10**12)):
        ctx.violation("deltamax-unstable", case, expected=a, actual=c)
        return None
    return {"tid": tid, "seq": list(seq), "after": hist, "ev": ev, "value": float(a[1])}


def run(ctx):
    lc = common.load_repo(ctx.repo)
    ctx.rule = ("(M) every composition (p,n,z) with N <= MaxN plus the slab z in 15..19 with one charge count <= 2 and the other <= 8 is a TLC state: DMaxSymmetric, "
                "PermAttains, RegimePartition, FamilyMirror, ZeroWhenTrivial, TieAgreesNoNeutral; (G) every composition realised "
                "through several random permutations/spellings; get_deltaMax(), get_deltaMax(True) (fresh, after get_kappa, after a "
                "random history) recorded and judged by TLC (value = family maximum, permutant is a rearrangement whose exact delta "
                "is the value) and equal across the permutations; (V) random compositions up to several hundred residues. "
                "non-trivial = distinct composition with delta-max > 0")
    maxn = ctx.pick(12, 22)
    res = mc_deltamax(ctx, maxn)
    ctx.exhaustive = True
    nperm = ctx.pick(2, 4)
    trs = []
    groups = {}
    tid = 0
    for rec in res.recs:
        p, n, z = rec["p"], rec["n"], rec["z"]
        base = [1] * p + [-1] * n + [0] * z
        for k in range(nperm):
            x = base[:]
            ctx.rng.shuffle(x)
            seq = common.spell(x, ctx.rng)
            tid += 1
            t = trace_for(lc, ctx, tid, seq, k % 3)
            if t:
                trs.append(t)
                groups.setdefault((p, n, z), []).append(t)
        if Fraction(common.unlimbs(rec["mn"])) > 0:
            ctx.nontrivial.add((p, n, z))
    # composition-only: identical value across the presentations (bitwise: same candidate strings are evaluated)
    for comp, ts in groups.items():
        vals = {t["value"] for t in ts}
        if len(vals) > 1 and max(vals) - min(vals) > 1e-12 * max(1.0, max(vals)):
            ctx.violation("deltamax-not-composition-only", {"composition": comp, "seqs": ["".join(t["seq"]) for t in ts]},
                          expected="one value", actual=sorted(vals))
    # (V) random long compositions
    nv = ctx.pick(8, 60)
    maxlen = ctx.pick(200, 500)
    lop = [(16, 1, 0), (1, 16, 0), (14, 2, 0), (2, 14, 0), (26, 3, 0), (3, 26, 0), (4, 4, 0), (12, 1, 0), (52, 4, 0), (5, 40, 0)]
    for i in range(nv + len(lop)):
        N = ctx.rng.randint(20, maxlen)
        kind = i % 4
        if i >= nv:
            kind = 9
        if kind == 0:
            p = ctx.rng.randint(0, N // 2); n = ctx.rng.randint(0, N - p)
        elif kind == 1:
            p = ctx.rng.randint(1, 3); n = ctx.rng.randint(N // 4, N // 2)
        elif kind == 2:
            n = ctx.rng.randint(1, 3); p = ctx.rng.randint(N // 4, N // 2)
        elif kind == 9:
            p, n, zz = lop[i - nv]
            N = p + n + zz
        else:
            p = ctx.rng.randint(0, N); n = 0 if ctx.rng.random() < 0.5 else N - p
        z = N - p - n
        x = [1] * p + [-1] * n + [0] * z
        two = []
        for k in range(2):
            ctx.rng.shuffle(x)
            tid += 1
            t = trace_for(lc, ctx, tid, common.spell(x, ctx.rng), ctx.rng.choice([0, 1, 2]))
            if t:
                trs.append(t); two.append(t)
        if len(two) == 2 and abs(two[0]["value"] - two[1]["value"]) > 1e-12 * max(1.0, two[0]["value"]):
            ctx.violation("deltamax-not-composition-only", {"composition": (p, n, z), "seqs": ["".join(t["seq"]) for t in two]},
                          actual=[t["value"] for t in two])
    # the strata of the search: lopsided charge counts, 12..17 neutrals, neighbouring compositions of one length (judged by TLC)
    for comp in patterning.composition_grid(ctx.rng, ctx.pick(72, 600)):
        tid += 1
        t = trace_for(lc, ctx, tid, common.spell(patterning.arrange(comp, ctx.rng), ctx.rng), ctx.rng.choice([0, 0, 1, 2]))
        if t:
            trs.append(t)
    # and, wider than TLC is asked to go: delta-max is at least the delta of any documented arrangement
    patterning.family_lower_bound(ctx, lc, patterning.composition_grid(ctx.rng, ctx.pick(120, 1200)))
    for t in trs:
        t.pop("value", None)
    patterning.judge_traces(ctx, trs)
    ctx.sample({"trace": {"seq": "".join(trs[0]["seq"]), "ev": ["get_deltaMax", "get_deltaMax(True)"]}})
    ctx.sample({"composition": [res.recs[-1]["p"], res.recs[-1]["n"], res.recs[-1]["z"]], "argmax": res.recs[-1]["arg"]})
    ctx.assumptions += ["which of several equal-delta permutants is returned is not constrained",
                        "at a tie of the two block lengths either block may be the one that slides (value only)",
                        "exhaustive in composition space up to N=%d (+ slab), random compositions up to %d residues" % (maxn, maxlen)]


def replay(ctx, rec):
    lc = common.load_repo(ctx.repo)
    c = rec["case"]
    seqs = [c["seq"]] if "seq" in c else c["seqs"]
    trs = []
    for i, s in enumerate(seqs):
        for mode in (0, 1):
            t = trace_for(lc, ctx, 2 * i + mode + 1, s, mode)
            if t:
                print(s, "->", t["value"]); t.pop("value"); trs.append(t)
    patterning.judge_traces(ctx, trs)
