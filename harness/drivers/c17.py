"""C17  shuffles and moves only rearrange, keep frozen sites, stay self-consistent."""
import os

from .. import common, tlc, traces, rngshim

MOVES = ["full_shuffle", "swapRandChargeRes", "permute_block_swap", "permute_cluster_charges"]
SUCCEED = ["full_shuffle", "swapRandChargeRes", "swapRes"]
TWO53 = 2 ** 53


def py_tape(tape):
    out = []
    for d in tape:
        if d[0] == "random":
            out.append(["random", common.unlimbs(d[1]) / TWO53])
        else:
            out.append([d[0], d[1]])
    return out


def tla_tape(log):
    out = []
    for d in log:
        if d[0] == "random":
            out.append(["random", common.limbs(int(d[1] * TWO53))])
        else:
            out.append([d[0], d[1] if not isinstance(d[1], list) else [int(x) for x in d[1]]])
    return out


def cp_of(obj):
    return [int(x) for x in obj.chargePattern]


def run_move(lc, parent, move, frozen, shim, args=None):
    with rngshim.installed(lc, shim):
        if move == "swapRes":
            return common.call(parent.swapRes, args[0], args[1], limit=60)
        return common.call(getattr(parent, move), set(frozen), limit=60)


def mc(ctx, move, maxlen, maxfrozen, alphabet=("K", "E", "G")):
    cfg = tlc.write_cfg(os.path.join(ctx.work, "MC_Moves_%s.cfg" % move),
                        constants={"Alphabet": set(alphabet), "MaxLen": maxlen, "MoveName": move, "MaxFrozen": maxfrozen},
                        invariants=["OnlyRearranges", "KeepsFrozen", "SwapsSucceed", "UsesWholeTape", "SelfOnlyWhenNothingToSwap",
                                    "CarriedDMaxValid", "Emit"])
    res = tlc.run_tlc("MC_Moves", cfg, ctx.work, timeout=7200, continue_=True, tag=move)
    ctx.add_tlc(res)
    if res.errors or not res.completed or not res.recs:
        raise tlc.MachineryError("MC_Moves(%s) failed: %s" % (move, res.errors[:2] or res.stdout[-600:]))
    for v in res.violated:
        ctx.violation("model:" + v, {"module": "MC_Moves", "move": move})
    return res


def postconditions(ctx, lc, case, parent, pseq, pcp, child, frozen, move, pdmax):
    """Reply-level clauses of the statement on one returned child; returns False when something was reported."""
    if parent.seq != pseq or cp_of(parent) != pcp:
        ctx.violation("parent-altered", case, expected=(pseq, pcp), actual=(parent.seq, cp_of(parent)))
        return False
    cseq = child.seq
    if sorted(cseq) != sorted(pseq):
        ctx.violation("not-a-rearrangement", case, expected=pseq, actual=cseq)
        return False
    if cp_of(child) != common.charge_pattern(cseq) or child.len != len(cseq):
        ctx.violation("child-charge-bookkeeping", case, expected=common.charge_pattern(cseq), actual=(cp_of(child), child.len))
        return False
    if child.dmax != -1:
        ref = common.call(lc.Sequence(cseq).deltaMax)
        if ref[0] != "ok" or not common.close(child.dmax, __import__("fractions").Fraction(float(ref[1]))):
            ctx.violation("carried-deltamax-wrong", case, expected=ref, actual=child.dmax)
            return False
    bad = [i for i in frozen if 0 <= i < len(pseq) and cseq[i] != pseq[i]]
    if bad:
        if move == "permute_block_swap":
            ctx.known.append(("K2a", "frozen %s changed by permute_block_swap on %s" % (bad, pseq)))
        elif move == "permute_cluster_charges":
            ctx.known.append(("K2b", "frozen %s changed by permute_cluster_charges on %s" % (bad, pseq)))
        else:
            ctx.violation("frozen-position-changed", case, expected=pseq, actual=cseq)
            return False
    return True


def observable(obj):
    """What the public API shows of a backend object (sequence, charge pattern, phosphosites, rendering)."""
    return (obj.seq, cp_of(obj), repr(common.call(obj.get_phosphosites)), repr(common.call(obj.get_HTMLColorString))[:4000])


def child_is_independent(ctx, case, parent, child, rng):
    """'The object they were called on is never altered' also afterwards: annotating, clearing and recolouring the returned object
    through its public methods must leave the parent as it was (and the other way round)."""
    if child is parent:
        return True
    for a, b, who in ((child, parent, "parent"), (parent, child, "child")):
        before = observable(b)
        sty = [i + 1 for i, ch in enumerate(a.seq) if ch in "STY"]
        common.call(a.setPhosPhoSites, rng.sample(sty, min(len(sty), 2)) if sty else [1])
        pal = {r: rng.choice(["red", "blue", "green", "black"]) for r in common.AA}
        common.call(a.set_HTMLColorResiduePalette, pal)
        if observable(b) != before:
            ctx.violation("parent-altered" if who == "parent" else "child-not-independent", dict(case, through="phosphosites / palette set on the %s afterwards" % ("child" if who == "parent" else "parent")),
                          expected=before[:3], actual=observable(b)[:3])
            return False
        common.call(a.clear_phosphosites)
        if observable(b) != before:
            ctx.violation("parent-altered" if who == "parent" else "child-not-independent", dict(case, through="clear_phosphosites on the other object"), expected=before[:3], actual=observable(b)[:3])
            return False
    return True


def replay_record(ctx, lc, rec, cached):
    pseq = "".join(rec["seq"])
    parent = lc.Sequence(pseq)
    if cached:
        common.call(parent.deltaMax)
    pcp = cp_of(parent)
    pdmax = parent.dmax
    frozen = rec["frozen"]
    shim = rngshim.Tape([] if rec["move"] == "swapRes" else py_tape(rec["tape"]))
    out = run_move(lc, parent, rec["move"], frozen, shim, args=[d[1] for d in rec["tape"]] if rec["move"] == "swapRes" else None)
    ctx.evaluations += 1
    case = {"move": rec["move"], "seq": pseq, "frozen": frozen, "tape": rec["tape"], "dmax_cached": cached}
    exp = rec["st"]
    want = "".join(rec["child"])
    exhausted = out[0] == "exc" and out[1] == "TapeExhausted"
    if getattr(shim, "deviated", False) and out[0] == "exc":
        # the tape could not drive this implementation to an outcome: nothing to judge in this case
        note = ctx.extra.setdefault("conformance_notes", {})
        note[rec["move"] + ": tape not applicable (other draws)"] = note.get(rec["move"] + ": tape not applicable (other draws)", 0) + 1
        return
    if out[0] == "timeout":
        ctx.violation("move-does-not-terminate", case)
        return
    conf = None
    if out[0] == "ok" and out[1] is parent:
        got = "self"
    elif out[0] == "ok":
        got = "child"
    elif exhausted:
        got = "more"
    else:
        got = "exc"
    retry_ok = exp == "more" or (exp in ("child", "tie") and not rec["changed"] and rec["move"] in MOVES[2:])
    # the statement's clauses
    if got == "exc" and rec["move"] in SUCCEED:
        ctx.violation("move-failed", case, expected="a rearranged object", actual=out[:3])
        return
    if got == "child":
        child = out[1]
        if not (hasattr(child, "seq") and isinstance(child.seq, str) and hasattr(child, "chargePattern")):
            ctx.violation("not-a-sequence-object", case, actual=repr(child)[:100])
            return
        if not postconditions(ctx, lc, case, parent, pseq, pcp, child, frozen, rec["move"], pdmax):
            return
        if ctx.evaluations % 7 == 0:
            want_child = (child.seq, cp_of(child))
            if not child_is_independent(ctx, case, parent, child, ctx.rng) or (child.seq, cp_of(child)) != want_child:
                return
    elif parent.seq != pseq or cp_of(parent) != pcp:
        ctx.violation("parent-altered", case, expected=(pseq, pcp), actual=(parent.seq, cp_of(parent)))
        return
    # conformance with the specification's transcription (notes only)
    if exp == "self" and got != "self":
        conf = "returns %s where the specification returns the parent itself" % got
    elif exp == "error" and got != "exc":
        conf = "%s where the specification raises" % got
    elif retry_ok:
        if not (got == "more" or (got == "child" and out[1].seq == want and not rec["changed"])):
            conf = "%s where the specification retries" % got
    elif exp in ("child", "tie"):
        if got != "child":
            conf = "%s where the specification returns a child" % got
        elif out[1].seq != want:
            conf = "child differs from the specification's for the same draws"
        elif shim.tape:
            conf = "fewer draws used than the specification"
        elif out[1].dmax != pdmax and not (rec["move"] == "swapRes" and rec["tape"][0][1] == rec["tape"][1][1]):
            conf = "delta-max not carried over"
    if getattr(shim, "deviated", False):
        conf = "draws the specification's transcription does not know"
    if conf:
        c = ctx.extra.setdefault("conformance_notes", {})
        c["%s: %s" % (rec["move"], conf)] = c.get("%s: %s" % (rec["move"], conf), 0) + 1
    ctx.nontrivial.add((rec["move"], pseq, tuple(frozen), repr(rec["tape"])))


def chain_events(ctx, lc, tid, start, nmoves, seed):
    """(V) a chain of moves with a recording RNG."""
    rng = ctx.rng
    rec = rngshim.Recorder(seed, budget=max(4000, 8 * len(start)))
    obj = lc.Sequence(start)
    if rng.random() < 0.5 or len(start) < 16:
        common.call(obj.deltaMax)
    ev = []
    ref_dmax = None            # delta-max of the chain's composition, from a fresh object (computed when first needed)
    for step in range(nmoves):
        move = rng.choice(MOVES + ["full_shuffle", "swapRandChargeRes", "swapRes"])
        N = len(obj.seq)
        frozen = sorted(rng.sample(range(N), rng.choice([0, 0, 1, 2, min(N, 5), max(0, N - 4), (2 * N) // 3, N // 2]))) if N > 1 else []
        if rng.random() < 0.15 and N > 6:
            frozen = sorted(set(range(0, (3 * N) // 4)) | {N - 2})          # a long frozen prefix, a few free sites at high indices
        pseq, pcp = obj.seq, cp_of(obj)
        rec.take()
        args = [rng.randrange(N), rng.randrange(N)] if move == "swapRes" else None
        if move == "swapRes":
            frozen = []
        out = run_move(lc, obj, move, frozen, rec, args=args)
        log = [["arg", args[0]], ["arg", args[1]]] if move == "swapRes" else rec.take()
        ctx.evaluations += 1
        e = {"move": move, "parent": list(pseq), "frozen": frozen, "tape": tla_tape(log), "parentafter": list(obj.seq), "parentcpafter": cp_of(obj),
             "st": "child", "child": [], "childcp": [], "childlen": 0, "dmax": "unset", "dmaxfx": common.fx(0)}
        if out[0] == "timeout":
            ctx.violation("move-does-not-terminate", {"move": move, "seq": pseq, "frozen": frozen})
            break
        if out[0] == "exc":
            e["st"] = "budget" if out[1] == "TapeExhausted" else "exc"
            ev.append(e)
            rec.budget = 4000
            continue
        child = out[1]
        if child is obj:
            e["st"] = "self"
            ev.append(e)
            continue
        if not (hasattr(child, "seq") and isinstance(child.seq, str) and hasattr(child, "chargePattern")):
            ctx.violation("not-a-sequence-object", {"move": move, "seq": pseq}, actual=repr(child)[:100])
            break
        e["child"] = list(child.seq)
        e["childcp"] = cp_of(child)
        e["childlen"] = int(child.len)
        if child.dmax != -1 and (step == 0 or step == nmoves - 1) and len(start) <= 300:
            # (TLC evaluates the whole documented family for this event; above 300 residues the carried value is compared with a
            # freshly built object's instead, which is what the statement says)
            e["dmax"] = "set"
            e["dmaxfx"] = common.fx(child.dmax)
        elif child.dmax != -1:
            if ref_dmax is None:
                ref_dmax = common.call(lc.Sequence(start).deltaMax)
            if ref_dmax[0] != "ok" or not common.close(child.dmax, __import__("fractions").Fraction(float(ref_dmax[1]))):
                ctx.violation("carried-deltamax-wrong", {"move": move, "seq": pseq, "child": child.seq}, expected=ref_dmax, actual=child.dmax)
        ev.append(e)
        if step % 3 == 0 and len(pseq) <= 300:
            with rngshim.installed(lc, rngshim.Recorder(seed + 7, budget=100000)):
                child_is_independent(ctx, {"move": move, "seq": pseq, "frozen": frozen, "child": child.seq}, obj, child, rng)
        obj = child
        rec.budget = max(4000, 8 * len(start))
    return {"tid": tid, "ev": ev}


def api_events(ctx, lc, tid, seq, seed):
    """get_shuffled_sequence(frozen) and SequencePermutants.get_permutant() as full_shuffle events."""
    rng = ctx.rng
    rec = rngshim.Recorder(seed)
    ev = []
    sp = lc.SP(seq)
    if rng.random() < 0.5:
        common.call(sp.get_kappa)
    import numpy as np
    own = set()          # one container owned by the caller: handed over several times and edited in place in between
    for which in ("shuffled", "shuffled-list", "shuffled-own-set-1", "shuffled-own-set-2", "shuffled-own-set-3", "shuffled-array", "shuffled-tuple", "shuffled-range", "permutant"):
        N = len(seq)
        frozen = sorted(rng.sample(range(N), rng.randint(0, min(N, 4))))
        if which == "permutant":
            frozen = []
        if which.startswith("shuffled-own-set"):
            if which.endswith("3"):
                keep = rng.choice(sorted(own)) if own else 0
                own.clear()
                own.add(keep)
            else:
                own.update(rng.sample(range(N), min(N, 2)))
            frozen = sorted(own)
        with rngshim.installed(lc, rec):
            rec.take()
            if which == "shuffled":
                out = common.call(sp.get_shuffled_sequence, set(frozen))
                parent = sp.SeqObj
            elif which.startswith("shuffled-own-set"):
                out = common.call(sp.get_shuffled_sequence, own)
                parent = sp.SeqObj
            elif which.startswith("shuffled-"):
                if which == "shuffled-range":
                    frozen = list(range(0, rng.randint(0, min(N, 4))))
                if which == "shuffled-array" and rng.random() < 0.5:
                    frozen = [0]
                arg = {"shuffled-list": list(frozen), "shuffled-array": np.array(frozen, dtype=int), "shuffled-tuple": tuple(frozen),
                       "shuffled-range": range(0, len(frozen))}[which]
                out = common.call(sp.get_shuffled_sequence, arg)
                parent = sp.SeqObj
            else:
                pm = common.call(lc.SPerm, seq)
                if pm[0] != "ok":
                    ctx.violation("move-failed", {"api": "SequencePermutants", "seq": seq}, actual=pm)
                    continue
                parent = pm[1].SeqObj
                out = common.call(pm[1].get_permutant)
        log = rec.take()
        ctx.evaluations += 1
        if out[0] != "ok" or not hasattr(out[1], "SeqObj"):
            ctx.violation("move-failed", {"api": which, "seq": seq, "frozen": frozen}, actual=out[:3])
            continue
        child = out[1].SeqObj
        e = {"move": "full_shuffle", "parent": list(seq), "frozen": frozen, "tape": tla_tape(log), "parentafter": list(parent.seq),
             "parentcpafter": cp_of(parent), "st": "child", "child": list(child.seq), "childcp": cp_of(child), "childlen": int(child.len),
             "dmax": "set" if child.dmax != -1 else "unset", "dmaxfx": common.fx(child.dmax if child.dmax != -1 else 0)}
        if len(seq) > 300 and child.dmax != -1:
            e["dmax"] = "unset"
            ref = common.call(lc.Sequence(child.seq).deltaMax, limit=300)
            if ref[0] != "ok" or not common.close(child.dmax, __import__("fractions").Fraction(float(ref[1]))):
                ctx.violation("carried-deltamax-wrong", {"api": which, "seq": seq, "child": child.seq}, expected=ref, actual=child.dmax)
        if out[1].get_sequence() != child.seq or len(out[1]) != len(seq):
            ctx.violation("child-length", {"api": which, "seq": seq}, actual=(out[1].get_sequence(), len(out[1])))
        ev.append(e)
    return {"tid": tid, "ev": ev}


def run(ctx):
    lc = common.load_repo(ctx.repo)
    ctx.rule = ("(M) MC_Moves: every sequence over {K,E,G} up to a length, every frozen set, every outcome of the random draws of each "
                "move (one pass through the two retry loops): OnlyRearranges, KeepsFrozen (shuffle, charge swap), SwapsSucceed, "
                "UsesWholeTape, CarriedDMaxValid; (G) every such case replayed into the real backend move through an RNG tape: the "
                "real child must be exactly the specification's, with consistent charge bookkeeping, length, carried delta-max, parent "
                "unaltered, frozen kept; (V) chains of 20 random moves on random sequences with a seeded recording RNG, "
                "get_shuffled_sequence and SequencePermutants.get_permutant, validated by TLC (Trace_Moves) on the logged draws. "
                "non-trivial = distinct (move, sequence, frozen, draws)")
    plan = [("swapRes", ctx.pick(5, 6), 0), ("full_shuffle", ctx.pick(4, 5), 5), ("swapRandChargeRes", ctx.pick(4, 5), 5),
            ("permute_block_swap", ctx.pick(5, 6), 1), ("permute_cluster_charges", ctx.pick(5, 6), 1)]
    ctx.exhaustive = True
    for move, maxlen, maxfrozen in plan:
        res = mc(ctx, move, maxlen, maxfrozen)
        for i, rec in enumerate(res.recs):
            replay_record(ctx, lc, rec, cached=(i % 2 == 0))
            ctx.traces += 1
        ctx.sample({"move": move, "seq": "".join(res.recs[-1]["seq"]), "frozen": res.recs[-1]["frozen"], "tape": res.recs[-1]["tape"],
                    "expected": res.recs[-1]["st"], "child": "".join(res.recs[-1]["child"])}, 4)
    # residues beyond K/E/G for the two moves that look at letters
    res = mc(ctx, "permute_cluster_charges", ctx.pick(4, 5), 0, alphabet=("K", "R", "D", "S"))
    for rec in res.recs:
        replay_record(ctx, lc, rec, cached=False)
        ctx.traces += 1
    # (V)
    trs = []
    # short, fully or nearly fully charged peptides first: the class where an arrangement's delta can exceed the heuristic delta-max
    starts = ["ESRDEKER", "EKEEEEKEEEEEKK", "KEEEEK", "KKEEEEK", "DRKKGSE", "EEKKKGKE", "KEEEKEK", "RDDDDDRG", "KKKKEEEE", "EEEEKKKK",
              "KKKKKKKKKKKKE", "GSGSGSGS", "G"] + \
        common.random_sequences(ctx.rng, ctx.pick(24, 150), ctx.pick(40, 60), 4)
    for i, s in enumerate(starts):
        trs.append(chain_events(ctx, lc, len(trs) + 1, s, ctx.pick(12, 20), ctx.seed * 1000 + i))
        if i % 3 == 0:
            trs.append(api_events(ctx, lc, len(trs) + 1, s, ctx.seed * 1000 + 500 + i))
    # every move many times on the short, (nearly) fully charged peptides, the parent's delta-max cached: the class in which a child's
    # own delta can exceed the heuristic delta-max, so that "carried over" and "freshly computed" can come apart
    for n_, s in enumerate(starts[:11]):
        for mv in MOVES:
            for j in range(ctx.pick(12, 40)):
                parent = lc.Sequence(s)
                common.call(parent.deltaMax)
                pcp, pdmax = cp_of(parent), parent.dmax
                out = run_move(lc, parent, mv, set(), rngshim.Recorder(ctx.seed * 7919 + n_ * 97 + j, budget=1500))
                ctx.evaluations += 1
                if out[0] == "ok" and out[1] is not parent and hasattr(out[1], "seq"):
                    postconditions(ctx, lc, {"move": mv, "seq": s, "frozen": [], "dmax_cached": True}, parent, s, pcp, out[1], [], mv, pdmax)
    # chains and API calls on sequences of more than 1000 residues
    for k_ in range(ctx.pick(2, 5)):
        long_ = common.random_sequences(ctx.rng, 1, 1100, 1001)[0]
        trs.append(chain_events(ctx, lc, len(trs) + 1, long_, ctx.pick(8, 14), ctx.seed * 1000 + 900 + k_))
        if k_ == 0:
            trs.append(api_events(ctx, lc, len(trs) + 1, long_, ctx.seed * 1000 + 950))
    trs = [t for t in trs if t["ev"]]
    # "return an object ...": a move that comes back with an object in none of the many recorded attempts on ordinary sequences --
    # whatever it raises instead -- does not return what the statement describes.  (Which inputs block swap and clustering refuse,
    # and with which exception, is otherwise left open; the bounded model has only ties and refusals for them because delta is
    # constant on chains of five and six residues.)
    tally = {}
    for t in trs:
        for e in t["ev"]:
            if len(e["parent"]) >= 10:
                c_ = tally.setdefault(e["move"], [0, 0])
                c_[0] += 1
                c_[1] += e["st"] in ("child", "self")
    ctx.extra["moves_attempted_and_returned_on_chains_of_10+_residues"] = tally
    for mv, (att, ret) in tally.items():
        if att >= 20 and ret == 0:
            ctx.violation("move-never-returns", {"move": mv, "attempts": att}, expected="a rearranged object for at least some ordinary sequences", actual="none in %d attempts" % att)
    verdicts, known = traces.validate(ctx, "Trace_Moves", trs)
    for n in ctx.last_trace_result.tagged.get("NOTE", []):
        c = ctx.extra.setdefault("conformance_notes", {})
        c["trace: " + n["what"]] = c.get("trace: " + n["what"], 0) + 1
    for tid, evi, kid in known:
        ctx.known.append((kid.split(":")[1], "trace %d event %d" % (tid, evi)))
    for tr in trs:
        v = verdicts[tr["tid"]]
        ctx.traces += 1
        if v[0] == "reject":
            e = tr["ev"][v[1] - 1]
            ctx.violation(v[2], {"move": e["move"], "seq": "".join(e["parent"]), "frozen": e["frozen"], "tape": e["tape"], "returned": e["st"],
                                 "child": "".join(e["child"])}, expected="the specification's move on the logged draws", actual="trace rejected by TLC at event %d" % v[1])
        else:
            ctx.nontrivial.add(("chain", tr["tid"]))
    ctx.sample({"trace": [{"move": e["move"], "frozen": e["frozen"], "st": e["st"]} for e in trs[0]["ev"][:6]]})
    ctx.assumptions += ["block swap and clustering may raise their documented errors or exhaust the draw budget (retry loops); what they return must satisfy the postconditions",
                        "when two arrangements have exactly equal delta the code's float comparison may retry or return: both accepted",
                        "the distribution of the random moves is not asserted"]


def replay(ctx, rec):
    lc = common.load_repo(ctx.repo)
    c = rec["case"]
    print("case:", c)
    if "tape" in c and c.get("move") in MOVES and "dmax_cached" in c:
        r = {"move": c["move"], "seq": list(c["seq"]), "frozen": c["frozen"], "tape": c["tape"], "st": "child", "child": list(rec.get("expected") or ""), "changed": True}
        replay_record(ctx, lc, r, c["dmax_cached"])
    else:
        run(ctx)
