"""G01 (growth, not a listed property): auxiliary backend functions -- phasePlotAnnotation, cumMeanHydropathy,
linearDistOfHydropathy_2, toString, write_compfile -- validated by TLC (Trace_Aux) against the same specification modules."""
import os

from .. import common, traces


def run(ctx):
    lc = common.load_repo(ctx.repo)
    ctx.rule = ("(V) random sequences: phasePlotAnnotation = name of the region, cumMeanHydropathy = prefix means of the 0-9 Kyte-Doolittle "
                "scale, linearDistOfHydropathy_2 = window sums at the documented positions (w > N rejected), toString = the ten fields "
                "to 5 decimals, write_compfile = the 20 fractions rounded to 2 decimals in alphabetical order; judged by TLC (Trace_Aux)")
    seqs = common.random_sequences(ctx.rng, ctx.pick(30, 200), ctx.pick(80, 300), 1)
    trs = []
    os.makedirs(ctx.work, exist_ok=True)
    for i, s in enumerate(seqs):
        o = lc.SP(s)
        so = o.SeqObj
        N = len(s)
        ev = []
        a = common.call(so.phasePlotAnnotation)
        ev.append({"q": "annotation", "text": a[1] if a[0] == "ok" and isinstance(a[1], str) else "?"})
        c = common.call(so.cumMeanHydropathy)
        if c[0] == "ok":
            ev.append({"q": "cumhyd", "rv": [common.fx(x) for x in c[1]]})
        else:
            ctx.violation("cumulative-mean-hydropathy", {"seq": s}, actual=c)
        for w in sorted({1, N, N + 1, ctx.rng.randint(1, N), min(N, 5), min(N, 6)}):
            h = common.call(so.linearDistOfHydropathy_2, w)
            e = {"q": "linhyd2", "w": w, "exc": h[0] != "ok", "pos": [], "rv": []}
            if h[0] == "ok":
                e["pos"] = [int(x) for x in h[1][0]]
                e["rv"] = [common.fx(x) for x in h[1][1]]
            ev.append(e)
        t = common.call(so.toString)
        if t[0] == "ok" and isinstance(t[1], str):
            try:
                ev.append({"q": "tostring", "fields": [common.fx(float(x)) for x in t[1].split("\t")]})
            except ValueError:
                ctx.violation("tostring-fields", {"seq": s}, actual=t[1])
        else:
            ctx.violation("tostring-fields", {"seq": s}, actual=t)
        path = os.path.join(ctx.work, "compfile")
        w_ = common.call(o.write_compfile, path)
        if w_[0] == "ok":
            rows = [ln.split("\t") for ln in open(path).read().splitlines()[1:]]
            try:
                ev.append({"q": "compfile", "rows": [{"res": r[0], "v": common.fx(float(r[1].rstrip("%")))} for r in rows]})
            except Exception as ex:
                ctx.violation("compfile-rows", {"seq": s}, actual=repr(ex))
        else:
            ctx.violation("compfile-rows", {"seq": s}, actual=w_)
        ctx.evaluations += len(ev)
        trs.append({"tid": i + 1, "seq": list(s), "ev": ev})
    verdicts, _ = traces.validate(ctx, "Trace_Aux", trs)
    for tr in trs:
        v = verdicts[tr["tid"]]
        ctx.traces += 1
        if v[0] == "reject":
            e = tr["ev"][v[1] - 1]
            ctx.violation(v[2], {"seq": "".join(tr["seq"]), "event": e["q"], "w": e.get("w")}, actual="trace rejected by TLC at event %d" % v[1])
        else:
            ctx.nontrivial.add("".join(tr["seq"]))
    ctx.sample({"trace": {"seq": seqs[0], "ev": [e["q"] for e in trs[0]["ev"]]}})
    ctx.states = max(ctx.states, 1)
    ctx.transitions = max(ctx.transitions, 1)


def replay(ctx, rec):
    run(ctx)
