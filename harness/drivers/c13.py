"""C13  sequence strings are normalised or rejected, never silently altered."""
import os

from .. import common, tlc, traces, inputs, objmodel

WS = ['\t', '\n', '\r', '\x0b', '\x0c', '\x1c', '\x1f', '\x85', '\xa0', ' ', '　', ' ']
PUNCT = list("-_.,;:!?/\\|()[]{}<>@#$%^&+=~`'\"")
NONSTD = list("BJOUXZbjouxz") + ['é', 'Ω', 'Ж', 'ℵ', '\x00', '\x7f', '€']


def realise(tokens, rng):
    out = []
    for c in tokens:
        if c == 9:
            out.append(rng.choice(WS))
        elif c == 49:
            out.append(rng.choice("0123456789٣"))
        elif c == 45:
            out.append(rng.choice(PUNCT))
        elif c == 88:
            out.append(rng.choice(NONSTD))
        else:
            out.append(chr(c))
    return "".join(out)


def construct_event(ctx, lc, text, check_battery=False):
    out = common.call(lc.SP, text)
    ctx.evaluations += 1
    e = {"q": "construct", "cps": [ord(c) for c in text], "ok": out[0] == "ok", "seq": [], "len": 0, "pylen": 0}
    if out[0] == "timeout":
        ctx.violation("construct-timeout", {"text": text})
        return None
    if out[0] == "ok":
        o = out[1]
        s, n, pl = common.call(o.get_sequence), common.call(o.get_length), common.call(len, o)
        if s[0] != "ok" or not isinstance(s[1], str) or n[0] != "ok" or pl[0] != "ok" or not common.is_number(n[1]):
            ctx.violation("sequence-not-the-normalised-word", {"text": text}, actual=(s, n, pl))
            return None
        e["seq"] = [ord(c) for c in s[1]]
        e["len"] = int(n[1])
        e["pylen"] = int(pl[1])
        if check_battery and s[1]:
            ref = common.call(lc.SP, s[1])
            if ref[0] != "ok":
                ctx.violation("normalised-word-rejected", {"text": text, "normalised": s[1]}, actual=ref)
            else:
                a, b = inputs.battery(o), inputs.battery(ref[1])
                for q in a:
                    if not objmodel.same_reply(objmodel.digest(a[q]), objmodel.digest(b[q])):
                        ctx.violation("analysis-differs-from-normalised-word", {"text": text, "normalised": s[1], "query": q},
                                      expected=b[q], actual=a[q])
                        break
    return e


def run(ctx):
    lc = common.load_repo(ctx.repo)
    ctx.rule = ("(M) MC_SeqInput: every string of up to MaxLen tokens over ten character classes: NormalisedIsClean, AcceptedIsWord, "
                "Idempotent, RejectsForeign, BlankRejected, WhitespaceIrrelevant; (G) every state realised with seeded concrete characters "
                "and replayed into SequenceParameters(): outcome, get_sequence, get_length, len() = TLC's expectation; a query battery "
                "equal between the raw and the normalised text; non-strings rejected; (V) valid sequences with random case/whitespace and "
                "every code point 0..0x2FF (+ a sample of the rest of Unicode) at every position of a short sequence, recorded and judged "
                "by TLC (Trace_Input). non-trivial = distinct text")
    maxlen = ctx.pick(4, 5)
    cfg = tlc.write_cfg(os.path.join(ctx.work, "MC_SeqInput.cfg"), constants={"MaxLen": maxlen},
                        invariants=["NormalisedIsClean", "AcceptedIsWord", "Idempotent", "RejectsForeign", "BlankRejected",
                                    "WhitespaceIrrelevant", "Emit"])
    res = tlc.run_tlc("MC_SeqInput", cfg, ctx.work, timeout=7200, continue_=True)
    ctx.add_tlc(res)
    expect = sum(10 ** k for k in range(maxlen + 1))
    if res.errors or not res.completed or res.distinct != expect or len(res.recs) != expect:
        raise tlc.MachineryError("MC_SeqInput failed: %s" % (res.errors[:2] or res.stdout[-500:]))
    for v in res.violated:
        ctx.violation("model:" + v, {"module": "MC_SeqInput"})
    ctx.exhaustive = True
    for i, rec in enumerate(res.recs):
        text = realise(rec["text"], ctx.rng)
        e = construct_event(ctx, lc, text, check_battery=(i % 7 == 0))
        ctx.traces += 1
        if e is None:
            continue
        exp_seq = "".join(chr(c) for c in rec["seq"])
        got = "".join(chr(c) for c in e["seq"])
        if e["ok"] != rec["ok"]:
            ctx.violation("accepted-invalid-text" if e["ok"] else "rejected-valid-text", {"text": text}, expected=rec["ok"], actual=e["ok"])
        elif e["ok"] and (got != exp_seq or e["len"] != len(exp_seq) or e["pylen"] != len(exp_seq)):
            ctx.violation("sequence-not-the-normalised-word", {"text": text}, expected=exp_seq, actual=(got, e["len"], e["pylen"]))
        ctx.nontrivial.add(text)
        if rec["ok"]:
            ctx.sample({"text": text, "expected": exp_seq}, 3)
    import decimal
    import numpy as np

    class Wordy:
        def __str__(self):
            return "ACDKE"
    for ns in (None, 5, 3.5, b"KE", ["K", "E"], ("K", "E"), {"K": 1}, object(), True, False, 0, [], b"", float("nan"), float("inf"),
               Ellipsis, np.bool_(False), np.array("acd"), np.array(["K", "E"]), decimal.Decimal("NaN"), decimal.Decimal("Infinity"),
               Wordy(), bytearray(b"KE"), np.float64("nan"), {"A", "C"}, 1j):
        out = common.call(lc.SP, ns)
        ctx.evaluations += 1
        if out[0] == "ok":
            ctx.violation("non-string-accepted", {"text": repr(ns)}, expected="rejected", actual="object with sequence %r" % (common.call(out[1].get_sequence),))
    # (V)
    texts = []
    for s in common.random_sequences(ctx.rng, ctx.pick(30, 200), ctx.pick(60, 200), 1):
        t = []
        for ch in s:
            if ctx.rng.random() < 0.15:
                t.append(ctx.rng.choice(WS + [" ", " "]))
            t.append(ch.lower() if ctx.rng.random() < 0.4 else ch)
        texts.append(("".join(t), True))
    base = "KEsG"
    cps = list(range(0, 0x300)) + ctx.rng.sample(range(0x300, 0x30000), ctx.pick(300, 4000)) + [0x17F, 0x131, 0xFB01, 0x1E9E, 0x2126, 0x212A, 0xDF, 0x149]
    for cp in cps:
        if 0xD800 <= cp <= 0xDFFF:
            continue
        pos = ctx.rng.randint(0, len(base)) if cp >= 0x300 else None
        for p in ([pos] if pos is not None else range(len(base) + 1)):
            texts.append((base[:p] + chr(cp) + base[p:], False))
    texts += [("", False), (" ", False), ("\n\t ", False), ("k e\nk", True), ("ß", False), ("K", False)]
    # far beyond the enumerated bound: hundreds of separate whitespace runs, thousands of residues
    long_seq = common.random_sequences(ctx.rng, 1, 700, 600)[0]
    texts.append((" ".join(long_seq), True))
    big = common.random_sequences(ctx.rng, 1, 3000, 2600)[0]
    texts.append(("\n".join(" ".join(big[i + j:i + j + 10] for j in range(0, 60, 10)) for i in range(0, len(big), 60)), False))
    # a string is a sequence, never a file name: files of these names exist in the working directory while the check runs
    cwd = os.getcwd()
    os.makedirs(ctx.work, exist_ok=True)
    os.chdir(ctx.work)
    try:
        open("READMEKW", "w").write("this is not a sequence file\n")
        open("notes.txt", "w").write(">x\nKEKEGS\n")
        open("ACDEF", "w").write(">x\nWWWWWWWW\n")
        for text in ("READMEKW", "notes.txt", "ACDEF", "readmekw"):
            e = construct_event(ctx, lc, text, check_battery=False)
            if e:
                ok_expected = text != "notes.txt"
                if e["ok"] != ok_expected or (e["ok"] and "".join(chr(c) for c in e["seq"]) != text.upper()):
                    ctx.violation("accepted-invalid-text" if e["ok"] else "rejected-valid-text", {"text": text, "note": "a file of this name exists in the working directory"},
                                  expected=text.upper() if ok_expected else "rejected", actual=(e["ok"], "".join(chr(c) for c in e["seq"])))
    finally:
        os.chdir(cwd)
    trs = []
    for i, (text, bat) in enumerate(texts):
        e = construct_event(ctx, lc, text, check_battery=bat and i % 3 == 0)
        if e:
            trs.append({"tid": i + 1, "ev": [e], "text": text})
            ctx.nontrivial.add(text)
    tab = inputs.tables([t["text"] for t in trs])
    for t in trs:
        t["textrepr"] = repr(t.pop("text"))
    verdicts, _ = traces.validate(ctx, "Trace_Input", trs, tab)
    for tr in trs:
        v = verdicts[tr["tid"]]
        ctx.traces += 1
        if v[0] == "reject":
            e = tr["ev"][0]
            ctx.violation(v[2], {"text": "".join(chr(c) for c in e["cps"]), "textrepr": tr["textrepr"]},
                          expected="accepted iff upper-cased, whitespace-free text is a non-empty amino-acid word", actual={"accepted": e["ok"], "sequence": "".join(chr(c) for c in e["seq"])})
    from .. import orderswap
    items = [{"obj": n_, "seq": t_, "q": "__construct__"} for n_, t_ in enumerate(
        ["KEKEGS", "kekegs \n", "KEK-EGS", "KEKXEGS", "KEK1EGS", "", "   ", "KEK*", "B", "ke ke\tgs", "KEKÉGS", "K.E", "ACDEFGHIKLMNPQRSTVWY", "O", "U", "J", "Z", "K\u00a0E", "K\u200bE", ">KE"])]
    orderswap.env_differential(ctx, items, "accepted-invalid-text", "c13env")
    ctx.sample({"trace": {"text": trs[0]["textrepr"], "accepted": trs[0]["ev"][0]["ok"]}})
    ctx.extra["unicode_code_points_tried"] = len(cps)
    ctx.assumptions += ["'upper-casing' and 'whitespace' are Python's str.upper / str.isspace; their tables for the code points used are exported to TLC (trusted)",
                        "str subclasses are not asserted either way; the empty string is rejected"]


def replay(ctx, rec):
    lc = common.load_repo(ctx.repo)
    text = rec["case"]["text"]
    e = construct_event(ctx, lc, text, check_battery=True)
    print("text", repr(text), "->", e and (e["ok"], "".join(chr(c) for c in e["seq"])))
    if e:
        verdicts, _ = traces.validate(ctx, "Trace_Input", [{"tid": 1, "ev": [e]}], inputs.tables([text]))
        if verdicts[1][0] == "reject":
            ctx.violation(verdicts[1][2], rec["case"])
