"""C06  Omega and kappa_X are kappa of the recoded sequence."""
import itertools
import os
from fractions import Fraction

from .. import common, tlc, patterning
from ..objects import warmup, make_object

OMEGA = ["P", "E", "D", "K", "R"]


def num(v):
    return v[0] == "ok" and common.is_number(v[1])


def eq(a, b, bitwise=False):
    if not (num(a) and num(b)):
        return False
    return common.close(a[1], Fraction(float(b[1])), tol=Fraction(1, 10**12)) if bitwise else common.close(a[1], Fraction(float(b[1])))


def scramble(group, rng):
    g = list(group)
    rng.shuffle(g)
    return [c.lower() if rng.random() < 0.4 else c for c in g]


def one_sequence(ctx, lc, seq, tid, hist_mode):
    """All clauses on one sequence; returns the trace for TLC."""
    rng = ctx.rng
    o, seq, how = make_object(lc, seq, rng) if len(seq) > 8 else (lc.SP(seq), seq, "direct")
    hist = []
    if hist_mode == 1:
        hist = [{"call": "get_kappa"}, {"call": "get_deltaMax"}]
        common.call(o.get_kappa); common.call(o.get_deltaMax)
    elif hist_mode == 2:
        hist = warmup(o, rng)
    case = {"seq": seq, "after": hist}
    ev = []
    om = common.call(o.get_Omega)
    kx = common.call(o.get_kappa_X, list(OMEGA))
    k = common.call(o.get_kappa)
    k2 = common.call(o.get_kappa_X, ["E", "D"], ["K", "R"])
    os_ = common.call(o.get_Omega_sequence)
    ctx.evaluations += 1
    if not eq(om, kx):
        ctx.violation("omega-is-not-kappaX(PEDKR)", case, expected=om, actual=kx)
    if not eq(k, k2):
        ctx.violation("kappa-is-not-kappaX(ED,KR)", case, expected=k, actual=k2)
    if num(om):
        ev.append({"q": "omega", "r": common.fx(om[1])})
    else:
        ctx.violation("omega-failed", case, actual=om)
    if os_[0] == "ok" and isinstance(os_[1], str):
        ev.append({"q": "omegaseq", "rs": list(os_[1])})
    else:
        ctx.violation("omega-sequence", case, actual=os_)
    if num(k2):
        ev.append({"q": "kappax", "g1": ["E", "D"], "g2": ["K", "R"], "r": common.fx(k2[1])})
    # the same union of residues, merged or split elsewhere, right after (a memo keyed on the letters only would go stale)
    for ga, gb in ((["E", "D", "K", "R"], []), (["D"], ["E", "K", "R"]), (["D", "E", "K"], ["R"]), (["D", "E"], ["K", "P", "R"]), (["P", "E", "D", "K", "R"], [])):
        v = common.call(o.get_kappa_X, ga, gb or None)
        if num(v):
            ev.append({"q": "kappax", "g1": ga, "g2": gb, "r": common.fx(v[1])})
        else:
            ctx.violation("kappaX-failed", dict(case, g1=ga, g2=gb), actual=v)
    # random groups; every other round a lopsided pair (a residue type that occurs 1-3 times against frequent ones)
    from collections import Counter
    cnt = Counter(seq)
    rare = [r for r, c in cnt.items() if c <= 3]
    common_res = [r for r, c in cnt.most_common(4)]
    for rnd in range(4):
        letters = list(common.AA)
        rng.shuffle(letters)
        a = rng.randint(0, 8)
        b = rng.randint(0, 8)
        g1, g2 = letters[:a], letters[a:a + b]
        mode = rng.choice(["disjoint", "disjoint", "one", "overlap", "complement"])
        if rnd % 2 == 1 and rare and len(seq) >= 24:
            r1 = rng.choice(rare)
            many = [x for x in common_res if x != r1][:rng.randint(1, 2)]
            if many:
                g1, g2 = ([r1], many) if rng.random() < 0.5 else (many, [r1])
                mode = "disjoint"
        if mode == "one":
            g2 = []
        elif mode == "overlap" and g1:
            g2 = g2 + rng.sample(g1, min(len(g1), 2))
        elif mode == "complement":
            g2 = []
        v = common.call(o.get_kappa_X, scramble(g1, rng), scramble(g2, rng) if g2 else (None if rng.random() < 0.5 else []))
        c2 = dict(case, g1=g1, g2=g2)
        if not num(v):
            ctx.violation("kappaX-failed", c2, actual=v)
            continue
        ev.append({"q": "kappax", "g1": g1, "g2": g2, "r": common.fx(v[1])})
        # order / case of members
        w = common.call(o.get_kappa_X, scramble(g1, rng), scramble(g2, rng) if g2 else None)
        if not eq(v, w, True):
            ctx.violation("kappaX-depends-on-member-order-or-case", c2, expected=v, actual=w)
        if g1 and g2 and not set(g1) & set(g2):
            w = common.call(o.get_kappa_X, list(g2), list(g1))
            if not eq(v, w):
                ctx.violation("kappaX-swap-changes-value", c2, expected=v, actual=w)
        if not g2:
            comp = [x for x in common.AA if x not in g1]
            w = common.call(o.get_kappa_X, comp)
            if not eq(v, w):
                ctx.violation("kappaX-complement-changes-value", c2, expected=v, actual=w)
    # rejection of non-amino-acids
    bad = rng.choice(["X", "B", "1", "*", "KE", "", " ", "Z", "é", "DE", "ST", "NQ", "FWY", "KDE", "IL"])
    for args in ((["K", bad],), (["K"], ["E", bad])):
        v = common.call(o.get_kappa_X, *args)
        if v[0] != "exc":
            ctx.violation("kappaX-accepts-non-amino-acid", dict(case, groups=args), expected="rejected", actual=v)
    return {"tid": tid, "seq": list(seq), "after": hist, "ev": ev}


def run(ctx):
    lc = common.load_repo(ctx.repo)
    ctx.rule = ("(M) every sequence over {K,E,P,G,S} up to MaxLen with every pair of groups over those letters: SwapLaw, ComplementLaw, "
                "OmegaIsKappaX, KappaIsKappaX, OmegaStringMarks, TwoLetter (pattern-level; kappa-level through the inversion invariance "
                "checked in MC_Patterning); (G/V) every sequence over that alphabet up to length 4 and random full-alphabet sequences "
                "x random groups (mixed case, reordered, overlapping, empty, complement, invalid): relations between the real replies "
                "and every value judged by TLC (Trace_Queries). non-trivial = distinct sequence")
    maxlen = ctx.pick(5, 7)
    cfg = tlc.write_cfg(os.path.join(ctx.work, "MC_Recode.cfg"), constants={"Alphabet": {"K", "E", "P", "G", "S"}, "MaxLen": maxlen},
                        invariants=["SwapLaw", "ComplementLaw", "OmegaIsKappaX", "KappaIsKappaX", "OmegaStringMarks", "TwoLetter"])
    res = tlc.run_tlc("MC_Recode", cfg, ctx.work, timeout=7200, continue_=True)
    ctx.add_tlc(res)
    if res.errors or not res.completed or res.distinct != sum(5 ** k for k in range(maxlen + 1)):
        raise tlc.MachineryError("MC_Recode failed: %s" % (res.errors[:2] or res.stdout[-600:]))
    for v in res.violated:
        ctx.violation("model:" + v, {"module": "MC_Recode"})
    # the kappa-level half of the laws: inversion invariance in MC_Patterning
    patterning.mc_patterning(ctx, ctx.pick(6, 8), ["C05"], checkdef=False, emit=False)
    ctx.exhaustive = True
    trs = []
    tid = 0
    short = ["".join(t) for L in range(1, ctx.pick(3, 4) + 1) for t in itertools.product("KEPGS", repeat=L)]
    # every two-class (P/E/D/K/R vs the rest) pattern of length 6..7|8, spelled at random: Omega beyond the clamp included
    for L in range(6, ctx.pick(7, 8) + 1):
        for t in itertools.product((0, 1), repeat=L):
            short.append("".join(ctx.rng.choice("PEDKR") if b else ctx.rng.choice("ACFGHILMNQSTVWY") for b in t))
    longer = common.random_sequences(ctx.rng, ctx.pick(40, 300), ctx.pick(60, 200), 5)
    for s in short + longer:
        tid += 1
        trs.append(one_sequence(ctx, lc, s, tid, tid % 3))
    # more than 256 residues of the P/E/D/K/R class: the X/O string and the two equalities (kappa itself is beyond TLC's bound here)
    for rep in range(2):
        big = "".join(ctx.rng.choices("PEDKRGSQ", weights=[3, 3, 2, 3, 2, 1, 1, 1], k=ctx.rng.randint(420, 520)))
        ob = lc.SP(big)
        om, kx, osq = common.call(ob.get_Omega, limit=300), common.call(ob.get_kappa_X, list(OMEGA), limit=300), common.call(ob.get_Omega_sequence)
        ctx.evaluations += 1
        if not eq(om, kx):
            ctx.violation("omega-is-not-kappaX(PEDKR)", {"seq": big[:40] + "...", "length": len(big)}, expected=om, actual=kx)
        want = "".join("X" if c in OMEGA else "O" for c in big)
        if osq[0] != "ok" or osq[1] != want:
            ctx.violation("omega-sequence", {"seq": big[:40] + "...", "length": len(big)}, expected=want[:60], actual=osq[1][:60] if osq[0] == "ok" else osq)
        two = lc.SP("".join("E" if c in OMEGA else "K" for c in big))
        kk = common.call(two.get_kappa, limit=300)
        if not eq(om, kk):
            ctx.violation("omega-is-not-kappa-of-the-recoded-sequence", {"seq": big[:40] + "...", "length": len(big)}, expected=kk, actual=om)
    patterning.judge_traces(ctx, trs)
    # which groups are refused does not depend on the interpreter environment
    from .. import orderswap
    sq = common.random_sequences(ctx.rng, 1, 30, 12)[0]
    items = [{"obj": 0, "seq": sq, "q": "get_kappa_X", "a": a_} for a_ in
             ([["B"]], [["E", "D"], ["K", "Z"]], [["ED"], ["KR"]], [["1"]], [["K", "R", "*"]], [["K", ""]], [["K"], ["E", " "]], [["k", "x"]],
              [["E", "D"], ["K", "R"]], [["P", "E", "D", "K", "R"]], [["g", "s"]], [["K"], ["E"]])]
    items += [{"obj": 0, "seq": sq, "q": q, "a": []} for q in ("get_Omega", "get_kappa", "get_Omega_sequence")]
    orderswap.env_differential(ctx, items, "kappaX-accepts-non-amino-acid", "c06env")
    ctx.sample({"trace": {"seq": "".join(trs[-1]["seq"]), "ev": [{k: e[k] for k in e if k != "r"} for e in trs[-1]["ev"]][:4]}})
    ctx.assumptions += ["swap law asserted for disjoint groups only; on overlap the first group wins (value judged by TLC)",
                        "exception type not constrained: any exception is a rejection"]


def replay(ctx, rec):
    lc = common.load_repo(ctx.repo)
    c = rec["case"]
    t = one_sequence(ctx, lc, c["seq"], 1, 1)
    patterning.judge_traces(ctx, [t])
    o = lc.SP(c["seq"])
    if "g1" in c:
        print("kappa_X", c["g1"], c["g2"], "->", common.call(o.get_kappa_X, c["g1"], c["g2"] or None))
