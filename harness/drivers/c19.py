"""C19  plots place sequences at true coordinates in the regions that classify them."""
import glob
import logging
import os
import warnings

from .. import common, tlc, traces

STATS = {"NCPR": "linearNCPR", "FCR": "linearFCR", "sigma": "linearSigma", "hydropathy": "linearHydropathy"}


def mpl():
    import matplotlib
    matplotlib.use("Agg")
    import matplotlib.pyplot as plt
    warnings.filterwarnings("ignore")
    logging.getLogger("matplotlib.font_manager").setLevel(logging.ERROR)
    return plt


def polygons(ax):
    from matplotlib.patches import Polygon
    out = []
    for p in ax.patches:
        if isinstance(p, Polygon):
            xy = [tuple(float(v) for v in pt) for pt in p.get_xy()]
            if len(xy) > 1 and xy[0] == xy[-1]:
                xy = xy[:-1]
            out.append(xy)
    return out


def record(plt):
    """What matplotlib's object model says about the current figure."""
    from matplotlib.patches import Rectangle
    fig = plt.gcf()
    if not fig.axes:
        return None

    def weight(a):
        nm = sum(len(c.get_offsets()) for c in a.collections) + sum(1 for ln in a.lines if ln.get_marker() not in (None, "None", "", " "))
        return (nm, sum(1 for r in a.patches if isinstance(r, Rectangle)), len(a.patches))
    # the axes that carries the markers (or bars): in a figure laid out by the caller the plot belongs to the caller's current
    # axes, and the regions, title and limits are read from that same axes
    ax = max(fig.axes, key=weight)
    markers = []
    for col in ax.collections:
        for off in col.get_offsets():
            markers.append((float(off[0]), float(off[1])))
    for ln in ax.lines:
        # a marker drawn with plot(x, y, 'o') instead of scatter
        if ln.get_marker() not in (None, "None", "", " ") and ln.get_linestyle() in ("None", "", " "):
            for x_, y_ in zip(ln.get_xdata(), ln.get_ydata()):
                markers.append((float(x_), float(y_)))
    bars = [(float(r.get_x() + r.get_width() / 2.0), float(r.get_height())) for r in ax.patches if isinstance(r, Rectangle)]
    curves = [{"x": [float(v) for v in ln.get_xdata()], "y": [float(v) for v in ln.get_ydata()], "label": str(ln.get_label()), "color": str(ln.get_color())}
              for ln in ax.lines if ln.get_linestyle() not in ("None", "", " ")]
    return {"curves": curves, "title_left": ax.get_title(loc="left"),
            "markers": markers, "labels": [t.get_text() for t in ax.texts], "title": ax.get_title(),
            "xlim": tuple(float(v) for v in ax.get_xlim()), "ylim": tuple(float(v) for v in ax.get_ylim()),
            "polys": polygons(ax), "bars": bars}


class SaveSpy:
    """Snapshots the figure when the library calls plt.savefig (it closes the figure right after)."""
    def __init__(self, plt):
        self.plt = plt
        self.rec = None

    def __enter__(self):
        self.orig = self.plt.savefig
        spy = self

        def savefig(*a, **k):
            spy.rec = record(spy.plt)
            return spy.orig(*a, **k)
        self.plt.savefig = savefig
        return self

    def __exit__(self, *a):
        self.plt.savefig = self.orig


def pts(pairs):
    return [[common.fx(x), common.fx(y)] for x, y in pairs]


STATE = {"after_save": False}


def fresh_canvas(plt):
    """The user closes what a show_* call displayed; after a save_* call the library itself must have closed the figure,
    so nothing is cleaned up here and a figure left open would show up in the next plot.  Now and then the caller has laid
    out a figure of its own and made one of its panels current (the pyplot entry points draw on the current axes)."""
    if not STATE["after_save"]:
        plt.close("all")
    STATE["after_save"] = False
    rng = STATE.get("rng")
    if rng is not None and rng.random() < 0.3:
        kind = rng.choice(["two-panels", "add_axes", "gridspec"])
        if kind == "two-panels":
            fig, axs = plt.subplots(1, 2)
            plt.sca(axs[rng.choice([0, 1])])
        elif kind == "add_axes":
            fig = plt.figure()
            fig.add_axes([0.1, 0.1, 0.5, 0.6])
        else:
            fig = plt.figure()
            gs = fig.add_gridspec(2, 2)
            fig.add_subplot(gs[1, 0])


def refused_call_before(plt, P, rng, workdir):
    """A call the library refuses (a fraction outside [0,1] further down a list, lists of unequal length, too few labels) and
    after which the user closes nothing, there being nothing on screen: the next plot must still hold exactly what it is asked for."""
    plt.close("all")
    bad = rng.choice([
        lambda: P.show_multiple_phasePlot([0.10, 0.45, 12.0], [0.10, 0.20, 0.30]),
        lambda: P.show_multiple_phasePlot([0.10, 0.45, 0.2], [0.10, 0.20, -0.30], ["a", "b", "c"], "refused", getFig=True),
        lambda: P.save_multiple_phasePlot([0.30, 0.2, 0.45, 1.5], [0.10, 0.20, 0.1, 0.1], os.path.join(workdir, "refused")),
        lambda: P.show_multiple_phasePlot([0.10, 0.45], [0.10, 0.20, 0.30]),
        lambda: P.show_multiple_uverskyPlot([0.4, 0.5], [0.1, 0.2, 0.3]),
        lambda: P.show_multiple_phasePlot([0.10, 0.45, 0.2], [0.10, 0.20, 0.30], ["only one"]),
        lambda: P.show_single_phasePlot(0.3, 1.4),
        lambda: P.save_single_phasePlot(-0.3, 0.4, os.path.join(workdir, "refused"))])
    out = common.call(bad, limit=120)
    for f in glob.glob(os.path.join(workdir, "refused*")):
        os.remove(f)
    if out[0] == "ok":
        plt.close("all")          # it was drawn after all: the user closes what is on screen
    else:
        STATE["after_save"] = True          # nothing is closed before the next call


def figure_event(ctx, plt, workdir, name, fn, kind, seqs=None, coords=None, getfig=False, save=False, title="", labels=(), xlim=1, ylim=1):
    """Call one entry point and turn the figure into an event."""
    fresh_canvas(plt)
    before = set(glob.glob(os.path.join(workdir, "*")))
    with SaveSpy(plt) as spy:
        out = common.call(fn, limit=120)
    ctx.evaluations += 1
    rec = spy.rec if save else (record(plt) if out[0] == "ok" else None)
    new = [f for f in glob.glob(os.path.join(workdir, "*")) if f not in before]
    fileok = bool(new) and all(os.path.getsize(f) > 0 for f in new)
    for f in new:
        os.remove(f)
    if save:
        STATE["after_save"] = out[0] == "ok"
    else:
        plt.close("all")
    e = {"q": "figure", "entry": name, "kind": kind, "fromseq": seqs is not None, "seqs": [list(s) for s in (seqs or [])],
         "coords": pts(coords or []), "exc": out[0] != "ok" or rec is None, "getfig": bool(getfig), "returned": out[0] == "ok" and out[1] is not None,
         "saved": bool(save), "fileok": fileok, "wanttitle": title, "wantlabels": list(labels), "wantxlim": common.fx(xlim), "wantylim": common.fx(ylim),
         "markers": [], "labels": [], "title": "", "xlim": [common.fx(0), common.fx(0)], "ylim": [common.fx(0), common.fx(0)], "polys": [],
         "error": repr(out[1:3]) if out[0] != "ok" else ""}
    # the region each sequence is assigned by the library itself (0: the call failed or gave something else)
    e["assigned"] = []
    for s_ in (seqs or []):
        r_ = common.call(lambda: STATE["lc"].SP("".join(s_)).get_phasePlotRegion())
        e["assigned"].append(int(r_[1]) if r_[0] == "ok" and common.is_number(r_[1]) and not isinstance(r_[1], bool) and int(r_[1]) == r_[1] and 1 <= r_[1] <= 5 else 0)
    if rec:
        e.update({"markers": pts(rec["markers"]), "labels": rec["labels"], "title": rec["title"],
                  "xlim": [common.fx(v) for v in rec["xlim"]], "ylim": [common.fx(v) for v in rec["ylim"]],
                  "polys": [pts(p) for p in rec["polys"]]})
    return e


def bars_event(ctx, plt, workdir, name, fn, seq, stat, w, save):
    fresh_canvas(plt)
    before = set(glob.glob(os.path.join(workdir, "*")))
    with SaveSpy(plt) as spy:
        out = common.call(fn, limit=120)
    ctx.evaluations += 1
    rec = spy.rec if save else (record(plt) if out[0] == "ok" else None)
    for f in glob.glob(os.path.join(workdir, "*")):
        if f not in before:
            os.remove(f)
    if save:
        STATE["after_save"] = out[0] == "ok"
    else:
        plt.close("all")
    bars = rec["bars"] if rec else []
    return {"q": "bars", "entry": name, "seq": list(seq), "stat": stat, "w": w, "exc": out[0] != "ok" or rec is None,
            "xs": [common.fx(b[0]) for b in bars], "heights": [common.fx(b[1]) for b in bars], "error": repr(out[1:3]) if out[0] != "ok" else ""}


def cbars_event(ctx, plt, workdir, name, fn, o, seq, ctype, w, st, save, getfig):
    """A complexity plot against the complexity profile the same object returns for the same arguments."""
    prof = common.call(lambda: o.get_linear_complexity(complexityType=ctype, blobLen=w, stepSize=st), limit=120)
    fresh_canvas(plt)
    before = set(glob.glob(os.path.join(workdir, "*")))
    with SaveSpy(plt) as spy:
        out = common.call(fn, limit=120)
    ctx.evaluations += 1
    rec = spy.rec if save else (record(plt) if out[0] == "ok" else None)
    new = [f for f in glob.glob(os.path.join(workdir, "*")) if f not in before]
    fileok = bool(new) and all(os.path.getsize(f) > 0 for f in new)
    for f in new:
        os.remove(f)
    if save:
        STATE["after_save"] = out[0] == "ok"
    else:
        plt.close("all")
    bars = rec["bars"] if rec else []
    okp = prof[0] == "ok"
    zero = [common.fx(0), common.fx(0)]
    return {"q": "cbars", "entry": name, "seq": list(seq), "ctype": ctype, "w": w, "s": st, "exc": out[0] != "ok" or rec is None or not okp,
            "getfig": bool(getfig), "returned": out[0] == "ok" and out[1] is not None, "saved": bool(save), "fileok": fileok,
            "pos": [common.fx(v) for v in prof[1][0]] if okp else [], "prof": [common.fx(v) for v in prof[1][1]] if okp else [],
            "xs": [common.fx(b[0]) for b in bars], "heights": [common.fx(b[1]) for b in bars], "title": rec["title"] if rec else "",
            "xlim": [common.fx(v) for v in rec["xlim"]] if rec else zero, "ylim": [common.fx(v) for v in rec["ylim"]] if rec else zero,
            "error": repr(out[1:3]) if out[0] != "ok" else (repr(prof[1:3]) if not okp else "")}


COMP_COLORS = ['red', 'blue', 'brown', 'green', 'black', 'orange', 'purple']
COMP_NAMES = ['E/D.', 'R/K', 'E/D/R/K', 'Q/N/S/T/G/H/C', 'I/L/V/M/A', 'F/Y/W.', 'P']


def lines_event(ctx, plt, workdir, name, fn, seq, w, plotdata, title):
    fresh_canvas(plt)
    before = set(glob.glob(os.path.join(workdir, "*")))
    with SaveSpy(plt) as spy:
        out = common.call(fn, limit=120)
    ctx.evaluations += 1
    rec = spy.rec
    new = [f for f in glob.glob(os.path.join(workdir, "*")) if f not in before]
    fileok = bool(new) and all(os.path.getsize(f) > 0 for f in new)
    for f in new:
        os.remove(f)
    STATE["after_save"] = out[0] == "ok"
    zero = [common.fx(0), common.fx(0)]
    return {"q": "lines", "entry": name, "seq": list(seq), "w": w, "plotdata": bool(plotdata), "wanttitle": title, "exc": out[0] != "ok" or rec is None,
            "fileok": fileok, "wantnames": COMP_NAMES, "wantcolors": COMP_COLORS, "title": rec["title_left"] if rec else "",
            "lines": [{"x": [common.fx(v) for v in c["x"]], "y": [common.fx(v) for v in c["y"]], "label": c["label"], "color": c["color"]} for c in rec["curves"]] if rec else [],
            "xlim": [common.fx(v) for v in rec["xlim"]] if rec else zero, "ylim": [common.fx(v) for v in rec["ylim"]] if rec else zero,
            "error": repr(out[1:3]) if out[0] != "ok" else ""}


def scaled_polys(polys):
    for S in (40, 200, 1000):
        ok = all(abs(v * S - round(v * S)) < 1e-9 for p in polys for pt in p for v in pt)
        if ok:
            return S, [[[int(round(x * S)), int(round(y * S))] for x, y in p] for p in polys]
    return None, None


def run(ctx):
    lc = common.load_repo(ctx.repo)
    STATE["lc"] = lc
    STATE["rng"] = ctx.rng
    plt = mpl()
    workdir = os.path.join(ctx.work, "figs")
    os.makedirs(workdir, exist_ok=True)
    ctx.rule = ("(M) MC_Plots: the five region polygons are read from the real diagram-of-states figure and, for every composition "
                "(p,n,z) up to MaxN, the marker (p/N, n/N) must lie in the closed polygon of its region (RegionDoc) and in no other "
                "polygon's interior (exact integer geometry); (V) every diagram-of-states / Uversky entry point (object methods, plots.*, "
                "show with and without getFig, save with the figure snapshotted at savefig) x argument combinations, and the linear-"
                "profile plots: the figure read through matplotlib's object model is validated by TLC (Trace_Plots): marker coordinates "
                "= (f+, f-) / (mean net charge, Uversky hydropathy) of the specification, labels, title, limits, returned object, "
                "marker inside the polygon of its region, one bar per residue with the profile's heights. non-trivial = distinct "
                "(entry point, arguments)")
    # the polygons of the real figure
    o = lc.SP("KEKEGS")
    plt.close("all")
    out = common.call(lambda: o.show_phaseDiagramPlot(getFig=True))
    rec = record(plt) if out[0] == "ok" else None
    plt.close("all")
    if not rec or len(rec["polys"]) != 5:
        ctx.violation("marker-not-in-the-region-that-classifies-it", {"entry": "show_phaseDiagramPlot"}, expected="five region polygons", actual=(out[:2], rec and rec["polys"]))
    else:
        S, sp = scaled_polys(rec["polys"])
        if S is None:
            ctx.violation("marker-not-in-the-region-that-classifies-it", {"polygons": rec["polys"]}, expected="vertices on a 0.001 grid", actual="off-grid vertices")
        else:
            maxn = {40: ctx.pick(60, 150), 200: ctx.pick(60, 150), 1000: 40}[S]
            # tuples cannot be written in a cfg file: a generated instance module defines the polygons read from the figure
            inst = os.path.join(ctx.work, "MC_PlotsInst.tla")
            open(inst, "w").write("---- MODULE MC_PlotsInst ----\nEXTENDS MC_Plots\nPolysFromFigure == %s\n====\n" % tlc.tla_value(sp))
            cfg = tlc.write_cfg(os.path.join(ctx.work, "MC_Plots.cfg"), constants={"MaxN": maxn, "Scale": S, "Polys": "@PolysFromFigure"},
                                invariants=["MarkerInOwnRegion", "NotInsideAnother", "FivePolygons"])
            txt = open(cfg).read().replace("Polys = PolysFromFigure", "Polys <- PolysFromFigure")
            open(cfg, "w").write(txt)
            res = tlc.run_tlc(inst, cfg, ctx.work, timeout=7200, continue_=True)
            ctx.add_tlc(res)
            if res.errors or not res.completed:
                raise tlc.MachineryError("MC_Plots failed: %s" % (res.errors[:2] or res.stdout[-600:]))
            for v in res.violated:
                ctx.violation("model:" + v, {"module": "MC_Plots", "polygons": rec["polys"]}, expected="the drawn regions are the ones get_phasePlotRegion uses")
            ctx.exhaustive = True
            ctx.sample({"polygons_read_from_figure": rec["polys"]})
    # (V)
    rng = ctx.rng
    trs = []
    seqs = common.random_sequences(rng, ctx.pick(14, 80), 60, 3) + ["K", "E", "KE", "GK", "SY", "KEG"]
    # compositions right next to the region boundaries (lengths at which FCR or |NCPR| comes within 1e-4 of 0.25 / 0.35)
    for N, p, n in ((1017, 356, 0), (1017, 178, 178), (1003, 451, 100), (1003, 100, 451), (5001, 1250, 0), (1000, 350, 0), (1000, 250, 0), (1000, 351, 0), (2000, 699, 1)):
        x = [1] * p + [-1] * n + [0] * (N - p - n)
        rng.shuffle(x)
        seqs.append(common.spell(x, rng))
    P = lc.plots
    for i, s in enumerate(seqs):
        o = lc.SP(s)
        ev = []
        title = rng.choice(["Diagram of states", "my title", "T%d" % i, ""])
        label = rng.choice(["", "seq%d" % i, "x"])
        xl, yl = rng.choice([(1, 1), (0.5, 0.5), (0.8, 0.6), (1, 0.7)])
        fs = rng.choice([8, 10, 14])
        leg = rng.random() < 0.7
        lab1 = [label] if label else []
        fn = os.path.join(workdir, "out%d" % i)
        fp, fm = o.get_fraction_positive(), o.get_fraction_negative()
        uh, mnc = o.get_uversky_hydropathy(), o.get_mean_net_charge()
        import numpy as np
        for getfig in (rng.choice([True, 1, np.bool_(True), np.int64(1)]), False):
            ev.append(figure_event(ctx, plt, workdir, "SP.show_phaseDiagramPlot", lambda: o.show_phaseDiagramPlot(label, title, leg, xl, yl, fs, getfig),
                                   "phase", seqs=[s], getfig=getfig, title=title, labels=lab1, xlim=xl, ylim=yl))
            ev.append(figure_event(ctx, plt, workdir, "SP.show_uverskyPlot", lambda: o.show_uverskyPlot(label, title, leg, xl, yl, fs, getfig),
                                   "uversky", seqs=[s], getfig=getfig, title=title, labels=lab1, xlim=xl, ylim=yl))
        ev.append(figure_event(ctx, plt, workdir, "SP.show_phaseDiagramPlot(getFig=True) by keyword", lambda: o.show_phaseDiagramPlot(getFig=True),
                               "phase", seqs=[s], getfig=True, title="Diagram of states", labels=[], xlim=1, ylim=1))
        ev.append(figure_event(ctx, plt, workdir, "SP.show_uverskyPlot(getFig=True) by keyword", lambda: o.show_uverskyPlot(getFig=True),
                               "uversky", seqs=[s], getfig=True, title="Uversky plot", labels=[], xlim=1, ylim=1))
        fmt = rng.choice(["png", "pdf", "svg"])
        if i % 2 == 0:
            refused_call_before(plt, P, rng, workdir)
        ev.append(figure_event(ctx, plt, workdir, "SP.save_phaseDiagramPlot", lambda: o.save_phaseDiagramPlot(fn, label, title, leg, xl, yl, fs, fmt),
                               "phase", seqs=[s], save=True, title=title, labels=lab1, xlim=xl, ylim=yl))
        ev.append(figure_event(ctx, plt, workdir, "SP.save_uverskyPlot", lambda: o.save_uverskyPlot(fn, label, title, leg, xl, yl, fs, fmt),
                               "uversky", seqs=[s], save=True, title=title, labels=lab1, xlim=xl, ylim=yl))
        ev.append(figure_event(ctx, plt, workdir, "plots.show_single_phasePlot", lambda: P.show_single_phasePlot(fp, fm, label, title, leg, xl, yl, fs, rng.choice([True, 1, np.bool_(True)])),
                               "phase", coords=[(fp, fm)], getfig=True, title=title, labels=lab1, xlim=xl, ylim=yl))
        ev.append(figure_event(ctx, plt, workdir, "plots.save_single_phasePlot", lambda: P.save_single_phasePlot(fp, fm, fn, label, title, leg, xl, yl, fs, fmt),
                               "phase", coords=[(fp, fm)], save=True, title=title, labels=lab1, xlim=xl, ylim=yl))
        ev.append(figure_event(ctx, plt, workdir, "plots.show_single_uverskyPlot", lambda: P.show_single_uverskyPlot(uh, mnc, label, title, leg, xl, yl, fs, rng.random() < 0.5 or True),
                               "uversky", coords=[(mnc, uh)], getfig=True, title=title, labels=lab1, xlim=xl, ylim=yl))
        ev.append(figure_event(ctx, plt, workdir, "plots.save_single_uverskyPlot", lambda: P.save_single_uverskyPlot(uh, mnc, fn, label, title, leg, xl, yl, fs, fmt),
                               "uversky", coords=[(mnc, uh)], save=True, title=title, labels=lab1, xlim=xl, ylim=yl))
        # several sequences at once; labels left out (shared default list) or given
        k = rng.randint(1, 5)
        group = [s] + rng.sample(seqs, k - 1) if k > 1 else [s]
        objs = [lc.SP(x) for x in group]
        fps = [x.get_fraction_positive() for x in objs]
        fms = [x.get_fraction_negative() for x in objs]
        uhs = [x.get_uversky_hydropathy() for x in objs]
        mns = [x.get_mean_net_charge() for x in objs]
        withlab = rng.random() < 0.4
        labs = ["L%d" % j for j in range(k)] if withlab else []
        want = labs if withlab else [""] * k
        la = (labs,) if withlab else ()
        gf = rng.choice([True, 1, np.bool_(True), False, False])
        ev.append(figure_event(ctx, plt, workdir, "plots.show_multiple_phasePlot", lambda: P.show_multiple_phasePlot(fps, fms, *la, getFig=gf) if not withlab else P.show_multiple_phasePlot(fps, fms, labs, title, leg, xl, yl, fs, gf),
                               "phase", coords=list(zip(fps, fms)), getfig=gf, title=title if withlab else "Diagram of states", labels=want, xlim=xl if withlab else 1, ylim=yl if withlab else 1))
        if i % 2 == 1:
            refused_call_before(plt, P, rng, workdir)
        ev.append(figure_event(ctx, plt, workdir, "plots.show_multiple_phasePlot2", lambda: P.show_multiple_phasePlot2(objs, labs, title, leg, xl, yl, fs, gf) if withlab else P.show_multiple_phasePlot2(objs, title=title, xLim=xl, yLim=yl, getFig=gf),
                               "phase", seqs=group, getfig=gf, title=title, labels=want, xlim=xl, ylim=yl))
        ev.append(figure_event(ctx, plt, workdir, "plots.save_multiple_phasePlot", lambda: P.save_multiple_phasePlot(fps, fms, fn, labs, title, leg, xl, yl, fs, fmt) if withlab else P.save_multiple_phasePlot(fps, fms, fn, title=title, xLim=xl, yLim=yl),
                               "phase", coords=list(zip(fps, fms)), save=True, title=title, labels=want, xlim=xl, ylim=yl))
        ev.append(figure_event(ctx, plt, workdir, "plots.save_multiple_phasePlot2", lambda: P.save_multiple_phasePlot2(objs, fn, labs, title, leg, xl, yl, fs, fmt) if withlab else P.save_multiple_phasePlot2(objs, fn, title=title, xLim=xl, yLim=yl),
                               "phase", seqs=group, save=True, title=title, labels=want, xlim=xl, ylim=yl))
        ev.append(figure_event(ctx, plt, workdir, "plots.show_multiple_uverskyPlot", lambda: P.show_multiple_uverskyPlot(uhs, mns, labs, title, leg, xl, yl, fs, gf) if withlab else P.show_multiple_uverskyPlot(uhs, mns, title=title, xLim=xl, yLim=yl, getFig=gf),
                               "uversky", coords=list(zip(mns, uhs)), getfig=gf, title=title, labels=want, xlim=xl, ylim=yl))
        ev.append(figure_event(ctx, plt, workdir, "plots.show_multiple_uverskyPlot2", lambda: P.show_multiple_uverskyPlot2(objs, labs, title, leg, xl, yl, fs, gf) if withlab else P.show_multiple_uverskyPlot2(objs, title=title, xLim=xl, yLim=yl, getFig=gf),
                               "uversky", seqs=group, getfig=gf, title=title, labels=want, xlim=xl, ylim=yl))
        ev.append(figure_event(ctx, plt, workdir, "plots.save_multiple_uverskyPlot", lambda: P.save_multiple_uverskyPlot(uhs, mns, fn, labs, title, leg, xl, yl, fs, fmt) if withlab else P.save_multiple_uverskyPlot(uhs, mns, fn, title=title, xLim=xl, yLim=yl),
                               "uversky", coords=list(zip(mns, uhs)), save=True, title=title, labels=want, xlim=xl, ylim=yl))
        ev.append(figure_event(ctx, plt, workdir, "plots.save_multiple_uverskyPlot2", lambda: P.save_multiple_uverskyPlot2(objs, fn, labs, title, leg, xl, yl, fs, fmt) if withlab else P.save_multiple_uverskyPlot2(objs, fn, title=title, xLim=xl, yLim=yl),
                               "uversky", seqs=group, save=True, title=title, labels=want, xlim=xl, ylim=yl))
        # linear profiles
        w = rng.randint(1, len(s))
        for stat, nm in (STATS.items() if len(s) <= 300 else []):
            ev.append(bars_event(ctx, plt, workdir, "SP.show_" + nm, lambda: getattr(o, "show_" + nm)(w, True), s, stat, w, False))
            if rng.random() < 0.4:
                ev.append(bars_event(ctx, plt, workdir, "SP.save_" + nm, lambda: getattr(o, "save_" + nm)(fn, w), s, stat, w, True))
        # complexity plots: one bar per window of the complexity profile; the composition plot: one curve per standard group
        if 12 <= len(s) <= 300:
            for ctype in ("WF", "LC", "LZW"):
                cw = rng.randint(4, min(len(s), 14))
                cs = rng.choice([1, 1, 1, 2, 3, 5])
                gfc = rng.choice([True, True, 1, False])
                if rng.random() < 0.5:
                    ev.append(cbars_event(ctx, plt, workdir, "SP.show_linearComplexity", lambda: o.show_linearComplexity(ctype, 20, {}, cw, cs, 3, gfc) if gfc else o.show_linearComplexity(complexityType=ctype, blobLen=cw, stepSize=cs),
                                          o, s, ctype, cw, cs, False, gfc))
                else:
                    ev.append(cbars_event(ctx, plt, workdir, "SP.save_linearComplexity", lambda: o.save_linearComplexity(fn, ctype, blobLen=cw, stepSize=cs),
                                          o, s, ctype, cw, cs, True, False))
            if len(s) <= 120 and i % 2 == 0:
                pdata = rng.random() < 0.7
                ctitle = rng.choice(["", title, "composition of " + s[:6]])
                lw_ = rng.randint(2, min(len(s), 9))
                ev.append(lines_event(ctx, plt, workdir, "SP.save_linearComposition", lambda: o.save_linearComposition(fn, lw_, title=ctitle, plot_data=pdata), s, lw_, pdata, ctitle))
        for e in ev:
            ctx.nontrivial.add((e["entry"], s, e.get("w"), e.get("wanttitle")))
        trs.append({"tid": i + 1, "ev": ev})
    # many points in one figure (more than 256)
    npts = 300
    fps = [rng.random() * 0.6 for _ in range(npts)]
    fms = [rng.random() * 0.4 for _ in range(npts)]
    ev = [figure_event(ctx, plt, workdir, "plots.show_multiple_phasePlot (300 points)", lambda: P.show_multiple_phasePlot(fps, fms, getFig=True),
                       "phase", coords=list(zip(fps, fms)), getfig=True, title="Diagram of states", labels=[""] * npts, xlim=1, ylim=1),
          figure_event(ctx, plt, workdir, "plots.save_multiple_uverskyPlot (300 points)", lambda: P.save_multiple_uverskyPlot(fms, fps, os.path.join(workdir, "many"), ["p%d" % k for k in range(npts)]),
                       "uversky", coords=list(zip(fps, fms)), save=True, title="Uversky plot", labels=["p%d" % k for k in range(npts)], xlim=1, ylim=1)]
    trs.append({"tid": len(trs) + 1, "ev": ev})
    verdicts, _ = traces.validate(ctx, "Trace_Plots", trs, timeout=7200)
    for tr in trs:
        v = verdicts[tr["tid"]]
        ctx.traces += 1
        if v[0] == "reject":
            e = tr["ev"][v[1] - 1]
            ctx.violation(v[2], {"entry": e["entry"], "seq": "".join(e["seqs"][0]) if e.get("seqs") else "".join(e.get("seq", [])), "getFig": e.get("getfig"),
                                 "title": e.get("wanttitle"), "labels": e.get("wantlabels"), "w": e.get("w"), "error": e.get("error")},
                          expected="the forwarding specification's figure", actual={"title": e.get("title"), "labels": e.get("labels"), "returned": e.get("returned"), "nmarkers": len(e.get("markers", []))})
    ctx.sample({"trace": [e["entry"] for e in trs[0]["ev"][:8]]})
    ctx.assumptions += ["the check reads matplotlib's object model (Agg), not pixels", "getFig=True may return the pyplot module: anything but None counts as the figure",
                        "the file format argument is not asserted (only that a non-empty file is written)"]


def replay(ctx, rec):
    print("case:", rec["case"])
    run(ctx)
