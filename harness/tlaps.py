"""Run the TLA+ proof manager on a proof module of /verif/spec (copied with its dependencies into the work directory)."""
import os
import re
import shutil
import subprocess

from . import tlc


def prove(ctx, module, deps, timeout=900):
    """Returns the number of obligations proved, 0 when some are not, None when tlapm cannot run (a note, never a verdict)."""
    d = os.path.join(ctx.work, "tlaps_" + module)
    os.makedirs(d, exist_ok=True)
    for f in [module] + list(deps):
        shutil.copy(os.path.join(tlc.SPEC_DIR, f + ".tla"), d)
    try:
        p = subprocess.run(["tlapm", "--threads", "8", "--cleanfp", module + ".tla"], cwd=d, stdout=subprocess.PIPE,
                           stderr=subprocess.STDOUT, text=True, timeout=timeout)
    except (subprocess.TimeoutExpired, FileNotFoundError) as e:
        ctx.notes.append("tlapm unavailable/timeout on %s: %s" % (module, e))
        return None
    m = re.search(r"All (\d+) obligations? proved", p.stdout)
    if m:
        return int(m.group(1))
    ctx.notes.append("tlapm did not prove all obligations of %s: %s" % (module, p.stdout[-300:]))
    return 0
