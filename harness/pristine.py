"""Reference replies from a pristine process: for each (sequence, sites, palette, query) the query is made on a freshly
constructed object in a forked child of a process that has imported the library and made no call at all, so that no
process-wide state (module-level caches, mutated default arguments) left by earlier queries can reach it.

  python -m harness.pristine <repo> <in.json> <out.json>
"""
import json
import os
import sys


def main():
    repo, inp, outp = sys.argv[1:4]
    sys.path.insert(0, os.path.dirname(os.path.dirname(os.path.abspath(__file__))))
    from harness import common, objmodel
    lc = common.load_repo(repo)
    keys = json.load(open(inp))
    out = []
    for k in keys:
        r, w = os.pipe()
        pid = os.fork()
        if pid == 0:
            os.close(r)
            try:
                o = lc.SP(k["seq"])
                if k["sites"]:
                    common.call(o.set_phosphosites, list(k["sites"]))
                if k["pal"]:
                    common.call(o.set_HTMLColorResiduePalette, dict(k["pal"]))
                d = objmodel.one_call(o, k["kind"], k["name"])
            except BaseException as e:      # noqa
                d = "harness-exception:" + repr(e)
            with os.fdopen(w, "w") as f:
                f.write(d)
            os._exit(0)
        os.close(w)
        with os.fdopen(r) as f:
            d = f.read()
        os.waitpid(pid, 0)
        out.append(d)
    json.dump(out, open(outp, "w"))


if __name__ == "__main__":
    main()
