"""RNG control.  The library draws from `rng.Random()` objects that it seeds with the clock; the module attribute
`rng` of backend.sequence / backend.wang_landau is replaced by a shim whose Random() objects ignore seed() and either

* replay a tape (G: TLC chose the draws), or
* record every draw of a seeded random.Random (V).

Draw encoding (shared with spec/Moves.tla): random() -> float; randint(a,b) -> int; sample(pop,k) -> the k chosen
*positions* in pop; shuffle(lst) -> the permutation p such that lst becomes [sorted(lst)[p[j]] for j].  A tape that runs
out raises TapeExhausted, which bounds the unbounded retry loops of the library."""
import random
import random as _random_module
_REAL = _random_module.Random(0)


class TapeExhausted(Exception):
    pass


class _TapeRandom:
    def __init__(self, owner):
        self.o = owner

    def seed(self, *a, **k):
        pass

    def _pop(self, kind):
        if not self.o.tape:
            raise TapeExhausted(kind)
        d = self.o.tape.pop(0)
        if d[0] != kind:
            raise TapeExhausted("tape has %r, code asked %s" % (d, kind))
        return d

    def random(self):
        return self._pop("random")[1]

    def randint(self, a, b):
        if a > b:
            raise ValueError("empty range for randrange() (%d, %d, %d)" % (a, b + 1, b + 1 - a))
        d = self._pop("randint")
        if not (a <= d[1] <= b):
            raise TapeExhausted("randint %d outside %d..%d" % (d[1], a, b))
        return d[1]

    def sample(self, pop, k):
        _REAL.sample(pop, 0)          # the interpreter's own argument check (a set is refused since Python 3.11)
        pop = list(pop)
        if k > len(pop):
            raise ValueError("Sample larger than population or is negative")
        d = self._pop("sample")
        if len(d[1]) != k or any(not (0 <= i < len(pop)) for i in d[1]) or len(set(d[1])) != k:
            raise TapeExhausted("bad sample %r for population %d" % (d[1], len(pop)))
        return [pop[i] for i in d[1]]

    def shuffle(self, lst):
        d = self._pop("shuffle")
        base = sorted(lst)
        if sorted(d[1]) != list(range(len(base))):
            raise TapeExhausted("bad permutation")
        lst[:] = [base[i] for i in d[1]]

    # draws the specification's transcription does not know (a refactoring may use them): the tape entry is used when it
    # fits (choice ~ sample of one position), otherwise a private seeded generator answers and the deviation is remembered
    def choice(self, seq):
        seq = list(seq)
        if not seq:
            raise IndexError("Cannot choose from an empty sequence")
        if self.o.tape and self.o.tape[0][0] == "sample" and len(self.o.tape[0][1]) == 1 and 0 <= self.o.tape[0][1][0] < len(seq):
            return seq[self.o.tape.pop(0)[1][0]]
        self.o.deviated = True
        return self.o.fallback.choice(seq)

    def __getattr__(self, name):
        if name.startswith("__"):
            raise AttributeError(name)
        self.o.deviated = True
        return getattr(self.o.fallback, name)


class Tape:
    def __init__(self, draws):
        self.tape = list(draws)
        self.deviated = False
        self.fallback = random.Random(12345)

    def Random(self):
        return _TapeRandom(self)


class _RecRandom:
    def __init__(self, owner):
        self.o = owner

    def seed(self, *a, **k):
        pass

    def _budget(self):
        self.o.budget -= 1
        if self.o.budget < 0:
            raise TapeExhausted("draw budget")

    def random(self):
        self._budget()
        v = self.o.r.random()
        self.o.log.append(["random", v])
        return v

    def randint(self, a, b):
        self._budget()
        v = self.o.r.randint(a, b)
        self.o.log.append(["randint", v])
        return v

    def sample(self, pop, k):
        self._budget()
        _REAL.sample(pop, 0)          # the interpreter's own argument check (a set is refused since Python 3.11)
        pop = list(pop)
        pos = self.o.r.sample(range(len(pop)), k)
        self.o.log.append(["sample", pos])
        return [pop[i] for i in pos]

    def shuffle(self, lst):
        self._budget()
        base = sorted(lst)
        p = list(range(len(base)))
        self.o.r.shuffle(p)
        self.o.log.append(["shuffle", p])
        lst[:] = [base[i] for i in p]

    def choice(self, seq):
        self._budget()
        seq = list(seq)
        if not seq:
            raise IndexError("Cannot choose from an empty sequence")
        i = self.o.r.randrange(len(seq))
        self.o.log.append(["choice", i])
        return seq[i]

    def __getattr__(self, name):
        # any other method of random.Random: answered by the underlying generator, logged by name only
        if name.startswith("__"):
            raise AttributeError(name)
        f = getattr(self.o.r, name)

        def wrapped(*a, **k):
            self._budget()
            v = f(*a, **k)
            self.o.log.append(["other:" + name, 0])
            return v
        return wrapped


class Recorder:
    def __init__(self, seed, budget=10**7):
        self.r = random.Random(seed)
        self.log = []
        self.budget = budget

    def Random(self):
        return _RecRandom(self)

    def take(self):
        out, self.log = self.log, []
        return out


class installed:
    """with installed(lc, shim): ... (both modules that own an `rng`)"""
    def __init__(self, lc, shim):
        self.mods = [lc.sequence, lc.wang_landau]
        self.shim = shim

    def __enter__(self):
        self.old = [m.rng for m in self.mods]
        for m in self.mods:
            m.rng = self.shim
        return self.shim

    def __exit__(self, *a):
        for m, o in zip(self.mods, self.old):
            m.rng = o
