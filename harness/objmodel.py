"""Driving real SequenceParameters objects along behaviours of the object state machine (spec/SeqObject.tla):
concrete calls per abstract action kind, reply digests, the fresh twin, the projection function."""
import copy

from . import common

DEFAULT_PALETTE = None
COLOURS = ['aqua', 'black', 'blue', 'fuchsia', 'gray', 'green', 'lime', 'maroon', 'navy', 'olive', 'orange', 'purple', 'red',
           'silver', 'teal', 'white', 'yellow']


def digest(v):
    """Canonical, exact text of a reply (floats by repr, arrays as nested lists)."""
    import numpy as np
    if isinstance(v, np.ndarray):
        return digest(v.tolist())
    if isinstance(v, (np.floating, float)):
        return repr(float(v))
    if isinstance(v, (np.integer,)):
        return repr(int(v))
    if isinstance(v, (list, tuple)):
        return "[" + ",".join(digest(x) for x in v) + "]"
    if isinstance(v, dict):
        return "{" + ",".join("%r:%s" % (k, digest(v[k])) for k in sorted(v, key=repr)) + "}"
    if isinstance(v, (set, frozenset)):
        return "{" + ",".join(sorted(digest(x) for x in v)) + "}"
    if hasattr(v, "SeqObj"):
        return "<SP %s>" % v.SeqObj.seq
    return repr(v)


_NUM = None


def same_reply(a, b, rel=1e-11):
    """Two reply digests are the same reply: identical text, floats allowed to differ by rounding noise (a refactoring may
    sum in another order on a cached path)."""
    if a == b:
        return True
    import re
    global _NUM
    if _NUM is None:
        _NUM = re.compile(r"-?\d+\.\d+(?:[eE][-+]?\d+)?|-?\d+[eE][-+]?\d+")
    ta, tb = _NUM.split(a), _NUM.split(b)
    if ta != tb:
        return False
    na, nb = _NUM.findall(a), _NUM.findall(b)
    if len(na) != len(nb):
        return False
    for x, y in zip(na, nb):
        fx_, fy = float(x), float(y)
        if fx_ != fy and abs(fx_ - fy) > rel * max(1.0, abs(fx_), abs(fy)):
            return False
    return True


def scribble(v):
    """The caller owns what a query returns: change it in place (a later query must not see that)."""
    import numpy as np
    try:
        if isinstance(v, list):
            v.append(999)
            if len(v) > 1:
                v[0] = -7
        elif isinstance(v, dict):
            for key in list(v):
                v[key] = "scribbled"
        elif isinstance(v, np.ndarray) and v.size:
            v.fill(7)
        elif isinstance(v, tuple):
            for x in v:
                scribble(x)
    except Exception:
        pass


def dcall(fn, *a, **k):
    out = common.call(fn, *a, **k)
    if out[0] == "ok":
        d = "ok:" + digest(out[1])
        scribble(out[1])
        return d
    if out[0] == "exc":
        return "exc:" + out[1]
    return "timeout"


# concrete calls per abstract kind; each returns a digest string
def pure_battery(o, rng=None, which=None):
    N = len(o.get_sequence())
    w = max(1, min(N, 3))
    calls = {
        "get_sequence": lambda: o.get_sequence(), "get_length": lambda: o.get_length(), "len": lambda: len(o), "str": lambda: str(o),
        "get_FCR": lambda: o.get_FCR(), "get_NCPR": lambda: o.get_NCPR(), "get_delta": lambda: o.get_delta(), "get_SCD": lambda: o.get_SCD(),
        "get_mean_hydropathy": lambda: o.get_mean_hydropathy(), "get_isoelectric_point": lambda: o.get_isoelectric_point(),
        "get_FCR_pH": lambda: o.get_FCR(7.0), "get_phasePlotRegion": lambda: o.get_phasePlotRegion(),
        "get_linear_NCPR": lambda: o.get_linear_NCPR(w), "get_linear_sigma": lambda: o.get_linear_sigma(w),
        "get_linear_hydropathy": lambda: o.get_linear_hydropathy(w),
        "get_linear_complexity": lambda: o.get_linear_complexity("LC", 8, {}, w, 1, 2),
        "get_reduced_alphabet_sequence": lambda: o.get_reduced_alphabet_sequence(6),
        "get_amino_acid_fractions": lambda: o.get_amino_acid_fractions(), "get_molecular_weight": lambda: o.get_molecular_weight(),
        "get_PPII_propensity": lambda: o.get_PPII_propensity("creamer"), "get_all_phosphorylatable_sites": lambda: o.get_all_phosphorylatable_sites(),
        "get_countPos": lambda: o.get_countPos(), "get_fraction_disorder_promoting": lambda: o.get_fraction_disorder_promoting(),
        "get_uversky_hydropathy": lambda: o.get_uversky_hydropathy(), "get_WW_hydropathy": lambda: o.get_WW_hydropathy(),
        "get_mean_net_charge": lambda: o.get_mean_net_charge(), "get_fraction_expanding": lambda: o.get_fraction_expanding(),
        "get_Omega_sequence": lambda: o.get_Omega_sequence(), "get_linear_FCR": lambda: o.get_linear_FCR(w),
        "reduce_user_alphabet_1": lambda: o.get_reduced_alphabet_sequence(20, UA1), "reduce_user_alphabet_2": lambda: o.get_reduced_alphabet_sequence(20, UA2),
        "complexity_user_alphabet_2": lambda: o.get_linear_complexity("WF", 20, UA2, w, 1),
        "get_linear_composition_user": lambda: o.get_linear_sequence_composition(w, [["K", "R"], ["S"]]),
    }
    names = [which] if which else sorted(calls)
    if rng is not None:
        names = list(names)
        rng.shuffle(names)          # the order of the calls varies; the digest below is by name
    out = {n: dcall(calls[n]) for n in names}
    return {n: out[n] for n in sorted(out)}


UA1 = {a: ("L" if a in "LVIMCAGSTPFYW" else "E") for a in common.AA}
UA2 = {a: ("K" if a in "KRH" else "D" if a in "DE" else "G") for a in common.AA}
PURE_NAMES = sorted(["reduce_user_alphabet_1", "reduce_user_alphabet_2", "complexity_user_alphabet_2", "get_linear_composition_user", "get_sequence", "get_length", "len", "str", "get_FCR", "get_NCPR", "get_delta", "get_SCD", "get_mean_hydropathy",
                     "get_isoelectric_point", "get_FCR_pH", "get_phasePlotRegion", "get_linear_NCPR", "get_linear_sigma",
                     "get_linear_hydropathy", "get_linear_complexity", "get_reduced_alphabet_sequence", "get_amino_acid_fractions",
                     "get_molecular_weight", "get_PPII_propensity", "get_all_phosphorylatable_sites", "get_countPos",
                     "get_fraction_disorder_promoting", "get_uversky_hydropathy", "get_WW_hydropathy", "get_mean_net_charge",
                     "get_fraction_expanding", "get_Omega_sequence", "get_linear_FCR"])
PHOSPHO_NAMES = ["get_phosphosites", "get_phosphosequence"]
PERM_FLAGS = ["True", "1", "np.bool_", "str", "np.int64"]
DERIVED_NAMES = ["get_Omega", "get_kappa_X1", "get_kappa_X2", "get_full_phosphostatus_kappa_distribution"]


ORDER = __import__("random").Random(7)


def one_call(o, kind, name=None):
    """Digest of one concrete call of an abstract kind (name=None: the whole battery of that kind)."""
    if kind == "pure":
        return digest(pure_battery(o, which=name)) if name else digest(pure_battery(o, rng=ORDER))
    if kind == "phospho":
        names = [name] if name else PHOSPHO_NAMES
        return digest({n: dcall(getattr(o, n)) for n in names})
    if kind == "html":
        return dcall(o.get_HTMLColorString)
    if kind == "derived":
        f = {"get_Omega": lambda: o.get_Omega(), "get_kappa_X1": lambda: o.get_kappa_X(["P", "G", "S"]),
             "get_kappa_X2": lambda: o.get_kappa_X(["K", "S"], ["E", "T"]),
             "get_full_phosphostatus_kappa_distribution": lambda: (o.get_full_phosphostatus_kappa_distribution() if len(o.get_phosphosites()) <= 4 else None)}
        names = [name] if name else DERIVED_NAMES
        return digest({n: dcall(f[n]) for n in names})
    if kind == "kappaPhos":
        return dcall(o.get_kappa_after_phosphorylation)
    if kind == "deltaMax":
        return dcall(o.get_deltaMax)
    if kind == "deltaMaxPerm":
        # any truthy flag asks for the permutant
        import numpy as np
        flag = {None: True, "True": True, "1": 1, "np.bool_": np.bool_(True), "str": "yes", "np.int64": np.int64(1)}[name]
        return dcall(o.get_deltaMax, flag)
    if kind == "kappa":
        return dcall(o.get_kappa)
    if kind == "composition-default":
        return dcall(o.get_linear_sequence_composition, max(1, min(len(o), 3)))
    if kind == "composition-user":
        return dcall(o.get_linear_sequence_composition, max(1, min(len(o), 3)), [["K", "e"], ["S", "T", "Y"]])
    raise KeyError(kind)


class Defaults:
    """The mutable default arguments of the library (process-wide state)."""
    def __init__(self, lc):
        self.lists = [lc.SP.get_linear_sequence_composition.__defaults__[1], lc.Sequence.linearCompositions.__defaults__[0]]

    def reset(self):
        for l in self.lists:
            del l[:]

    def snapshot(self):
        return [list(l) for l in self.lists]

    def restore(self, snap):
        for l, s in zip(self.lists, snap):
            l[:] = s

    def sp_groups(self):
        return len(self.lists[0])


def project(o):
    """Abstract state of a live real object: sequence and sites through the public API; the palette and the two cache flags
    are hidden attributes (no public getter) -- when a refactoring has renamed them they are reported as unknown (None)."""
    so = getattr(o, "SeqObj", None)
    sites = common.call(o.get_phosphosites)
    pal = getattr(so, "aminoAcidColorMap", None)
    dmax = getattr(so, "dmax", None)
    return {"alive": True, "seq": list(o.get_sequence()), "dmaxSet": None if dmax is None else bool(dmax != -1),
            "permSet": None if not hasattr(so, "seqDeltaMax") else so.seqDeltaMax is not None,
            "sites": [int(i) for i in sites[1]] if sites[0] == "ok" else ["?"],
            "pal": {r: (pal[r] if isinstance(pal.get(r), str) else "?missing") for r in common.AA} if isinstance(pal, dict) else None}


def twin(lc, o):
    """A freshly constructed object with the same sequence, sites and palette."""
    pr = project(o)
    tw = lc.SP("".join(pr["seq"]))
    if pr["sites"]:
        common.call(tw.set_phosphosites, list(pr["sites"]))
    if pr["pal"] is not None:
        common.call(tw.set_HTMLColorResiduePalette, dict(pr["pal"]))
    return tw


def fresh_reply(lc, defaults, o, kind, name=None):
    snap = defaults.snapshot()
    defaults.reset()
    try:
        return one_call(twin(lc, o), kind, name)
    finally:
        defaults.restore(snap)


class ShuffleShim:
    """Replaces backend.sequence.rng so that full_shuffle produces a chosen arrangement."""
    def __init__(self, target):
        self.target = target

    def Random(self):
        shim = self

        class R:
            def seed(self, *a):
                pass

            def shuffle(self, lst):
                raise RuntimeError("use make()")
        return R()


def shuffle_to(lc, o, target, frozen=()):
    """get_shuffled_sequence(frozen) forced (through the RNG) to return the arrangement `target`."""
    seqmod = lc.sequence
    parent = o.SeqObj.seq
    movable = [i for i in range(len(parent)) if i not in frozen]
    # choose, position by position, an unused movable index holding the wanted residue
    unused = list(movable)
    order = []
    for x in range(len(parent)):
        if x in frozen:
            continue
        for idx in unused:
            if parent[idx] == target[x]:
                order.append(idx)
                unused.remove(idx)
                break
        else:
            raise ValueError("target is not a rearrangement")

    class R:
        def seed(self, *a):
            pass

        def shuffle(self, lst):
            lst[:] = list(reversed(order))      # the code pops from the end

    class M:
        @staticmethod
        def Random():
            return R()
    old = seqmod.rng
    seqmod.rng = M
    try:
        return common.call(o.get_shuffled_sequence, set(frozen))
    finally:
        seqmod.rng = old
