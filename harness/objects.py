"""Call descriptors on SequenceParameters objects: random warm-up histories and
their application (used so that every functional check also queries objects
that already have a history -- caches filled, phosphosites set, defaults used)."""
from . import common

WARM = ["get_kappa", "get_deltaMax", "get_deltaMaxPerm", "get_delta", "get_Omega", "get_SCD", "get_FCR", "get_NCPR",
        "get_kappa_X", "get_linear_NCPR", "get_linear_FCR", "get_linear_sigma", "get_linear_hydropathy", "get_linear_composition",
        "set_phosphosites", "get_kappa_after_phosphorylation", "get_phosphosequence", "get_phospho_distribution",
        "clear_phosphosites", "get_HTMLColorString", "get_isoelectric_point", "get_linear_complexity",
        "get_reduced_alphabet_sequence", "get_shuffled_sequence", "get_FCR_pH", "get_mean_hydropathy",
        "get_phasePlotRegion", "len", "str", "get_fraction_disorder_promoting", "get_amino_acid_fractions",
        "get_molecular_weight", "get_PPII_propensity",
        # entry points that write files or render, and the remaining getters: none of them may change what is asked afterwards
        "write_compfile", "write_compfile", "save_phaseDiagramPlot", "get_Omega_sequence", "get_all_phosphorylatable_sites", "repr",
        "get_uversky_hydropathy", "get_WW_hydropathy", "get_countNeut", "get_fraction_positive", "get_mean_net_charge"]


def warmup(o, rng, n=None, phos=True):
    """Apply a random history of 2..6 calls to `o`; return the descriptors."""
    seq = o.get_sequence()
    N = len(seq)
    hist = []
    k = n if n is not None else rng.randint(2, 6)
    # stateful scenarios first (each fills a cache / sets state that must stay unobservable), then random calls
    sty = [i + 1 for i, r in enumerate(seq) if r in "STY"]
    # the scenarios take turns (every one of them occurs in every run, however few objects a check warms up); a scenario that needs
    # S/T/Y passes its turn to the next one when the sequence has none
    global _TURN
    order = ["phos", "dist", "cache", "perm", "moves", "defaults", "profiles", "phos", "none"]

    def applicable(sc):
        if sc in ("phos", "dist"):
            return bool(sty and phos)
        if sc == "moves":          # exchanging residues of one charge class shows nothing
            return N >= 2 and any(ch in "KRDE" for ch in seq) and len(set(common.charge_pattern(seq))) >= 2
        return True
    scen = None
    for sc in list(_OWED):          # a scenario that had to pass its turn is owed to the next object it applies to
        if applicable(sc):
            _OWED.remove(sc)
            scen = sc
            break
    while scen is None:
        sc = order[_TURN % len(order)]
        _TURN += 1
        if applicable(sc):
            scen = sc
        elif sc not in _OWED:
            _OWED.append(sc)
    pre = []
    if scen in ("phos", "dist") and sty and phos:
        pre.append({"call": "set_phosphosites", "sites": rng.sample(sty, min(len(sty), rng.randint(1, 3)))})
        pre.append({"call": "get_kappa_after_phosphorylation" if scen == "phos" else "get_phospho_distribution"})
        if rng.random() < 0.3:
            pre.append({"call": "clear_phosphosites"})
    elif scen == "cache":
        pre += [{"call": "get_kappa"}, {"call": "get_Omega"}]
    elif scen == "perm":
        pre += [{"call": "get_deltaMaxPerm"}, {"call": "get_shuffled_sequence"}]
    elif scen == "moves" and N >= 2:
        i1, i2 = swap_pair(seq, rng)
        # the parent's answers are asked for first (whatever it remembers is there when the permutants are derived); the swap
        # exchanges residues of different charge classes where the chain has them, and the permutant is swapped once more
        pre += [{"call": "get_SCD"}, {"call": "get_kappa"}, {"call": "backend_swapRes", "i": i1, "j": i2},
                {"call": "backend_swapRes_twice", "i": i1, "j": i2, "k": rng.randrange(N), "l": rng.randrange(N)},
                {"call": "backend_swapRandChargeRes"}, {"call": "backend_full_shuffle"}]
    elif scen == "profiles":
        # every sliding-window profile (whatever they compute on must not be the object's own bookkeeping)
        w_ = rng.randint(1, min(N, 7))
        pre += [{"call": n_, "w": w_} for n_ in ("get_linear_FCR", "get_linear_NCPR", "get_linear_sigma", "get_linear_hydropathy", "get_linear_composition")]
    elif scen == "defaults":
        pre += [{"call": "get_linear_composition", "w": rng.randint(1, N)}, {"call": "get_linear_composition", "w": rng.randint(1, N)}]
    for c in pre:
        apply_call(o, c)
        hist.append(c)
    for _ in range(k):
        name = rng.choice(WARM)
        c = {"call": name}
        if name in ("get_linear_NCPR", "get_linear_FCR", "get_linear_sigma", "get_linear_hydropathy", "get_linear_composition"):
            c["w"] = rng.randint(1, N)
        elif name == "set_phosphosites":
            if not phos:
                continue
            sty = [i + 1 for i, r in enumerate(seq) if r in "STY"]
            if not sty:
                continue
            c["sites"] = rng.sample(sty, min(len(sty), rng.randint(1, 3)))
        elif name == "clear_phosphosites" and not phos:
            continue
        elif name == "get_kappa_X":
            c["g1"] = rng.sample(common.AA, rng.randint(1, 5))
        elif name == "get_linear_complexity":
            c["w"] = rng.randint(1, N)
        elif name == "get_FCR_pH":
            c["pH"] = rng.choice([0, 3.5, 7, 7.4, 14])
        elif name == "get_reduced_alphabet_sequence":
            c["size"] = rng.choice([2, 3, 4, 5, 6, 8, 10, 11, 12, 15, 18, 20])
        apply_call(o, c)
        hist.append(c)
    return hist


def swap_pair(seq, rng):
    """Two positions to exchange: of opposite charge if the chain has both signs, else charged / neutral, else any two."""
    N = len(seq)
    pos = [i for i, ch in enumerate(seq) if ch in "KR"]
    neg = [i for i, ch in enumerate(seq) if ch in "DE"]
    neu = [i for i, ch in enumerate(seq) if ch not in "KRDE"]
    if pos and neg:
        return rng.choice(pos), rng.choice(neg)
    if (pos or neg) and neu:
        return rng.choice(pos or neg), rng.choice(neu)
    i1, i2 = rng.sample(range(N), 2)
    return i1, i2


def apply_call(o, c):
    """Apply one call descriptor; returns common.call's outcome."""
    if "made" in c:
        return ("ok", None)
    n = c["call"]
    if n == "backend_swapRes_twice":
        out = common.call(o.SeqObj.swapRes, c["i"], c["j"])
        if out[0] == "ok" and hasattr(out[1], "swapRes"):
            common.call(out[1].swapRes, c["k"], c["l"])          # ... and the permutant's own permutant
            common.call(out[1].swapRes, c["i"], c["l"])
        return out
    if n == "get_deltaMaxPerm":
        return common.call(o.get_deltaMax, True)
    if n == "backend_swapRes":
        return common.call(o.SeqObj.swapRes, c["i"], c["j"])          # a permutant is derived; the object itself must not change
    if n == "backend_swapRandChargeRes":
        return common.call(o.SeqObj.swapRandChargeRes)
    if n == "backend_full_shuffle":
        return common.call(o.SeqObj.full_shuffle)
    if n in ("get_linear_NCPR", "get_linear_sigma", "get_linear_hydropathy", "get_linear_FCR"):
        return common.call(getattr(o, n), c["w"])
    if n == "get_linear_composition":
        return common.call(o.get_linear_sequence_composition, c["w"])
    if n == "set_phosphosites":
        return common.call(o.set_phosphosites, list(c["sites"]))
    if n == "get_phospho_distribution":
        if len(o.get_phosphosites()) > 3:
            return ("ok", None)
        return common.call(o.get_full_phosphostatus_kappa_distribution)
    if n == "get_kappa_X":
        return common.call(o.get_kappa_X, list(c["g1"]), c.get("g2"))
    if n == "get_linear_complexity":
        return common.call(o.get_linear_complexity, "WF", 20, {}, c["w"], 1)
    if n == "get_FCR_pH":
        return common.call(o.get_FCR, c["pH"])
    if n == "get_reduced_alphabet_sequence":
        return common.call(o.get_reduced_alphabet_sequence, c["size"])
    if n in ("write_compfile", "save_phaseDiagramPlot"):
        import os
        d = os.path.join(common.VERIF, ".work", "objfiles")
        os.makedirs(d, exist_ok=True)
        path = os.path.join(d, "warm-%d" % os.getpid())
        try:
            return common.call(getattr(o, n), path)
        finally:
            for f in (path, path + ".png", path + ".pdf"):
                if os.path.exists(f):
                    os.remove(f)
    if n == "repr":
        return common.call(repr, o)
    if n == "len":
        return common.call(len, o)
    if n == "str":
        return common.call(str, o)
    return common.call(getattr(o, n))


_TURN = 0
_OWED = []
_MK = 0


WS_CHARS = [" ", "\n", "\t", "\r\n", "  ", "\u00a0", "\u2003", "\x0c"]


def make_object(lc, seq, rng, allow_shuffle=True):
    """An object for a check to query: built directly from `seq`, from a decorated spelling of it (lower case, whitespace:
    normalisation is part of the API), or as the child returned by get_shuffled_sequence(frozen) of such an object (its
    sequence is then a rearrangement of `seq`).  Returns (object, its sequence, how)."""
    # the ways of making an object take turns (every one of them occurs in every run, however few objects a check makes)
    global _MK
    how = ["direct", "shuffled", "decorated", "file", "moved", "direct", "seqobj", "decorated", "shuffled", "direct", "file"][_MK % 11]
    _MK += 1
    rng.random()
    if how == "moved" and (not allow_shuffle or len(seq) < 2):
        how = "direct"
    if how == "moved":
        # the permutant a backend pair swap derives from a parent that has already answered (and may remember) every patterning
        # question; the child is queried through the public class
        parent = lc.SP(seq)
        for q in (parent.get_SCD, parent.get_kappa, parent.get_delta, parent.get_deltaMax, parent.get_Omega, parent.get_FCR, parent.get_NCPR,
                  parent.get_mean_hydropathy, parent.get_isoelectric_point, parent.get_phasePlotRegion):
            common.call(q)
        i1, i2 = swap_pair(seq, rng)
        out = common.call(parent.SeqObj.swapRes, i1, i2)
        if out[0] == "ok" and hasattr(out[1], "seq"):
            child = common.call(lambda: lc.SP(SeqObj=out[1]))
            if child[0] == "ok":
                return child[1], child[1].get_sequence(), "permutant of a queried parent (backend swapRes %d,%d)" % (i1, i2)
        how = "direct"
    r = {"direct": 0.0, "seqobj": 0.5, "file": 0.55, "decorated": 0.7, "shuffled": 0.9}[how]
    if r < 0.45:
        return lc.SP(seq), seq, "direct"
    if r < 0.52:
        low = rng.random() < 0.5          # the backend upper-cases what it is given
        return lc.SP(SeqObj=lc.Sequence(seq.lower() if low else seq)), seq, "from a backend Sequence object (SeqObj=%s)" % ("lower case" if low else "upper case")
    if r < 0.60:
        import os
        import tempfile
        d = os.path.join(common.VERIF, ".work", "objfiles")
        os.makedirs(d, exist_ok=True)
        # one path per process, overwritten every time (a scratch file reused for one sequence after another, often of the same size)
        path = os.path.join(d, "query-%d.fasta" % os.getpid())
        with open(path, "w") as f:
            f.write(">made by the harness\n" + "\n".join(seq[i:i + 60] for i in range(0, len(seq), 60)) + rng.choice(["\n", ""]))
        out = common.call(lambda: lc.SP(sequenceFile=path))
        if out[0] == "ok":
            return out[1], seq, "from a FASTA file (sequenceFile=)"
        return lc.SP(seq), seq, "direct"
    if r < 0.8 or not allow_shuffle or len(seq) < 2:
        text = "".join((rng.choice(WS_CHARS) if rng.random() < 0.1 else "") + (c.lower() if rng.random() < 0.4 else c) for c in seq) + rng.choice(["", "\n", " "])
        return lc.SP(text), seq, "decorated string"
    parent = lc.SP(seq)
    if rng.random() < 0.5:
        common.call(parent.get_kappa)
    frozen = set(rng.sample(range(len(seq)), rng.randint(0, max(0, len(seq) // 3))))
    charged = [i for i, ch in enumerate(seq) if ch in "KRDE"]
    if charged:
        frozen.add(rng.choice(charged))          # a frozen position that holds a charged residue
    out = common.call(parent.get_shuffled_sequence, frozen)
    if out[0] != "ok":
        return lc.SP(seq), seq, "direct"
    child = out[1]
    return child, child.get_sequence(), "shuffled child (frozen %d)" % len(frozen)
