"""Shared plumbing: context, loading the real code from the repository under
test, exact float encoding, guarded calls with a time limit, results."""
import contextlib
import io
import json
import os
import random
import signal
import sys
import time
from fractions import Fraction

VERIF = os.path.dirname(os.path.dirname(os.path.abspath(__file__)))
BASE = 10000


class Ctx:
    def __init__(self, pid, tier, seed, repo):
        self.pid = pid
        self.tier = tier
        self.quick = tier == "quick"
        self.seed = seed
        self.repo = repo
        self.work = os.path.join(VERIF, ".work", "%s-%d" % (pid, os.getpid()))      # per process: concurrent runs do not collide
        self.rng = random.Random("%s-%d" % (pid, seed))
        # results
        self.violations = []      # dicts {clause, case, expected, actual, ...}
        self.known = []           # (finding id, text)
        self.states = 0
        self.transitions = 0
        self.traces = 0           # records replayed into / traces recorded from the real code and judged
        self.evaluations = 0
        self.nontrivial = set()
        self.samples = []
        self.tlc_cmds = []
        self.notes = []
        self.extra = {}
        self.assumptions = []
        self.rule = ""
        self.exhaustive = False

    def pick(self, tier_quick, tier_thorough):
        return tier_quick if self.quick else tier_thorough

    def add_tlc(self, res):
        self.states += res.distinct
        self.transitions += res.generated
        self.tlc_cmds.append(res.cmd)

    def violation(self, clause, case, expected=None, actual=None, **kw):
        v = {"clause": clause, "case": case, "expected": expected, "actual": actual}
        v.update(kw)
        self.violations.append(v)

    def sample(self, s, limit=6):
        if len(self.samples) < limit:
            self.samples.append(s)


# ----------------------------------------------------------------------------
# the code under test
# ----------------------------------------------------------------------------
_loaded = {}


def load_repo(repo):
    """Import localcider from `repo` (fresh interpreter per check = rebuild)."""
    if "lc" in _loaded:
        return _loaded["lc"]
    os.environ["LOCALCIDER_VERIF"] = "1"
    os.environ.setdefault("MPLBACKEND", "Agg")
    sys.dont_write_bytecode = True
    sys.path.insert(0, repo)
    import warnings
    warnings.filterwarnings("ignore", category=SyntaxWarning)
    with quiet():
        import localcider  # noqa
        from localcider import sequenceParameters, sequencePermutants, plots  # noqa
        from localcider.backend import sequence, wang_landau, seqfileparser, sequenceComplexity, plotting  # noqa
    here = os.path.realpath(localcider.__file__)
    if not here.startswith(os.path.realpath(repo) + os.sep):
        raise RuntimeError("localcider imported from %s, not from %s" % (here, repo))

    class LC:
        pass
    lc = LC()
    lc.SP = sequenceParameters.SequenceParameters
    lc.SPerm = sequencePermutants.SequencePermutants
    lc.Sequence = sequence.Sequence
    lc.sequence = sequence
    lc.wang_landau = wang_landau
    lc.seqfileparser = seqfileparser
    lc.sequenceComplexity = sequenceComplexity
    lc.plotting = plotting
    lc.plots = plots
    lc.sequenceParameters = sequenceParameters
    lc.sequencePermutants = sequencePermutants
    _loaded["lc"] = lc
    return lc


@contextlib.contextmanager
def quiet():
    old = sys.stdout
    sys.stdout = io.StringIO()
    try:
        yield
    finally:
        sys.stdout = old


class CallTimeout(Exception):
    pass


def _alarm(signum, frame):
    raise CallTimeout()


def call(fn, *args, limit=120.0, **kw):
    """Run fn(*args) quietly with a time limit.  Returns ("ok", value) |
    ("exc", exception class name, message) | ("timeout",)."""
    old = signal.signal(signal.SIGALRM, _alarm)
    signal.setitimer(signal.ITIMER_REAL, limit)
    try:
        with quiet():
            v = fn(*args, **kw)
        return ("ok", v)
    except CallTimeout:
        return ("timeout",)
    except BaseException as e:  # noqa - a rejection of any type
        if isinstance(e, KeyboardInterrupt):
            raise
        return ("exc", type(e).__name__, str(e)[:200])
    finally:
        signal.setitimer(signal.ITIMER_REAL, 0)
        signal.signal(signal.SIGALRM, old)


# ----------------------------------------------------------------------------
# numbers
# ----------------------------------------------------------------------------
def limbs(n):
    assert n >= 0
    out = []
    while n:
        out.append(n % BASE)
        n //= BASE
    return out


def unlimbs(l):
    n = 0
    for d in reversed(l):
        n = n * BASE + d
    return n


def fx(x):
    """A float (or int / numpy scalar) as sign + limbs of round(|x| * 10^15).
    Non-finite values are encoded as {"s": 2} (never equal to anything)."""
    x = float(x)
    if x != x or x in (float("inf"), float("-inf")):
        return {"s": 2, "m": []}
    f = Fraction(x)
    n = round(abs(f) * 10**15)
    if n == 0:
        return {"s": 0, "m": []}
    return {"s": 1 if f > 0 else -1, "m": limbs(n)}


def rat(sign, num_limbs, den_limbs):
    n = unlimbs(num_limbs)
    d = unlimbs(den_limbs)
    return Fraction(sign * n, d) if n else Fraction(0)


def frac_json(fr):
    fr = Fraction(fr)
    return {"s": (fr > 0) - (fr < 0), "n": limbs(abs(fr.numerator)), "d": limbs(fr.denominator)}


def close(reply, exact, tol=Fraction(1, 10**9)):
    """|reply - exact| <= 1e-9 * max(1, |exact|), evaluated exactly."""
    try:
        r = Fraction(float(reply))
    except (TypeError, ValueError, OverflowError):
        return False
    e = Fraction(exact)
    return abs(r - e) <= tol * max(1, abs(e))


def is_number(v):
    try:
        import numpy as np
        if isinstance(v, (bool, np.bool_)):
            return False
        return isinstance(v, (int, float, np.integer, np.floating))
    except Exception:
        return isinstance(v, (int, float)) and not isinstance(v, bool)


# ----------------------------------------------------------------------------
# realising charge patterns as residue strings
# ----------------------------------------------------------------------------
POS = "KR"
NEG = "DE"
NEUT = "ACFGHILMNPQSTVWY"
AA = "ACDEFGHIKLMNPQRSTVWY"


def spell(pattern, rng, neut=NEUT):
    out = []
    for c in pattern:
        if c > 0:
            out.append(rng.choice(POS))
        elif c < 0:
            out.append(rng.choice(NEG))
        else:
            out.append(rng.choice(neut))
    return "".join(out)


def charge_pattern(seq):
    return [1 if c in POS else -1 if c in NEG else 0 for c in seq]


def random_sequences(rng, count, maxlen, minlen=1):
    """Seeded IDP-like, polyampholyte, polyelectrolyte, low-complexity, very short sequences."""
    out = []
    kinds = ["idp", "ampholyte", "electrolyte+", "electrolyte-", "lowcomplex", "short", "uniform", "neutral-rich", "blocky",
             "runs", "special-length", "repeat"]
    special = [n for n in (16, 17, 18, 19, 24, 25, 31, 32, 33, 50, 51, 63, 64, 65, 97, 100, 101, 127, 128, 129, 200, 255, 256, 257, 300, 500)
               if minlen <= n <= maxlen]
    for i in range(count):
        kind = kinds[i % len(kinds)]
        n = rng.randint(minlen, maxlen)
        if kind == "special-length" and special:
            n = rng.choice(special)
            kind = rng.choice(["idp", "ampholyte", "uniform", "neutral-rich"])
        if kind == "idp":
            w = dict(zip(AA, [6, 1, 6, 9, 2, 8, 2, 2, 8, 4, 1, 4, 9, 6, 5, 10, 6, 4, 1, 2]))
        elif kind == "ampholyte":
            w = {"K": 10, "E": 10, "R": 4, "D": 4, "G": 2, "S": 2}
        elif kind == "electrolyte+":
            w = {"K": 10, "R": 8, "G": 4, "S": 3, "P": 2, "E": 1}
        elif kind == "electrolyte-":
            w = {"E": 10, "D": 8, "G": 4, "S": 3, "P": 2, "K": 1}
        elif kind == "lowcomplex":
            letters = rng.sample(AA, 3)
            w = {l: rng.randint(1, 10) for l in letters}
        elif kind == "short":
            n = rng.randint(minlen, min(maxlen, 8))
            w = {l: 1 for l in AA}
        elif kind == "neutral-rich":
            w = {"G": 10, "S": 10, "Q": 8, "N": 6, "P": 4, "K": 1, "E": 1, "Y": 3, "T": 3}
        elif kind == "blocky":
            w = None
        elif kind == "runs":
            # long runs of one residue (25 or more where the length allows) between ordinary stretches
            s = ""
            while len(s) < n:
                s += rng.choice(AA) * rng.randint(25, 40) if rng.random() < 0.5 else "".join(rng.choices(AA, k=rng.randint(3, 12)))
            out.append(s[:n])
            continue
        elif kind == "repeat":
            unit = "".join(rng.choices("KEDRGSPQNTY", k=rng.randint(2, 7)))
            out.append((unit * (n // len(unit) + 1))[:n])
            continue
        else:
            w = {l: 1 for l in AA}
        if w is None:
            s = ""
            while len(s) < n:
                s += rng.choice(AA) * rng.randint(1, 9)
            s = s[:n]
        else:
            ks = list(w)
            s = "".join(rng.choices(ks, weights=[w[k] for k in ks], k=n))
        out.append(s)
    return out
