"""The same list of questions asked in two pristine processes in two different orders.

A read-only query that is independent of the calls made before it (C15) gives the same reply whichever order the list is
worked through in; a reply that differs between the two processes depends on history -- on the same object (a per-object
memo that goes out of step after many distinct arguments) or across objects (a process-wide memo with a lossy key).  Neither
is visible to a twin object built in the same process, and dense families of near-identical questions are too many for a
forked child per question.

  python -m harness.orderswap <repo> <in.json> <out.json> forward|reverse

in.json:  [{"obj": k, "seq": "...", "q": "get_linear_NCPR", "a": [5]}, ...]   objects live for the whole list
out.json: [{"d": digest, "post": projection or null}, ...] in the order of in.json
"""
import json
import os
import sys


def work(repo, items, order):
    from harness import common, objmodel
    lc = common.load_repo(repo)
    objs = {}
    out = [None] * len(items)
    idx = list(range(len(items)))
    if order == "reverse":
        # blocks are reversed, the order inside a block is kept (a block = questions that are meant to follow one another)
        blocks = []
        for i in idx:
            if blocks and items[i].get("block") is not None and items[blocks[-1][-1]].get("block") == items[i].get("block"):
                blocks[-1].append(i)
            else:
                blocks.append([i])
        idx = [i for b in reversed(blocks) for i in b]
    for i in idx:
        it = items[i]
        if it["q"] == "__construct__":          # the constructor itself: accepted (with which sequence) or refused
            out[i] = {"d": objmodel.dcall(lambda: lc.SP(it["seq"]).get_sequence()), "post": None, "post0": None}
            continue
        if it["q"] == "__parsefile__":          # a file with the given text: parsed to which sequence, or refused
            path = os.path.join(os.path.dirname(__file__), "..", ".work", "objfiles", "swap-%d.txt" % os.getpid())
            os.makedirs(os.path.dirname(path), exist_ok=True)
            with open(path, "wb") as f:
                f.write(it["seq"].encode("utf-8", "surrogateescape"))
            try:
                out[i] = {"d": objmodel.dcall(lambda: lc.SP(sequenceFile=path).get_sequence()), "post": None, "post0": None}
            finally:
                os.remove(path)
            continue
        o = objs.get(it["obj"])
        post0 = None
        if o is None:
            o = objs[it["obj"]] = lc.SP(it["seq"])
            post0 = objmodel.project(o) if it.get("post") else None
        d = objmodel.dcall(getattr(o, it["q"]), *it.get("a", []))
        out[i] = {"d": d, "post": objmodel.project(o) if it.get("post") else None, "post0": post0}
        if it.get("drop"):
            objs.pop(it["obj"], None)
    return out


def main():
    repo, inp, outp, order = sys.argv[1:5]
    sys.path.insert(0, os.path.dirname(os.path.dirname(os.path.abspath(__file__))))
    items = json.load(open(inp))
    json.dump(work(repo, items, order), open(outp, "w"))


def run_both(ctx, items, tag="swap", vary_env=True):
    """Run the two processes side by side; returns (forward replies, reverse replies).  The second process also runs in another
    interpreter environment a user may well have: assertions disabled (-O) and another hash seed (set / dict iteration order);
    what a query returns must not depend on either."""
    import subprocess
    from . import common, tlc
    os.makedirs(ctx.work, exist_ok=True)
    inp = os.path.join(ctx.work, "%s_in.json" % tag)
    json.dump(items, open(inp, "w"))
    procs = []
    for order in ("forward", "reverse"):
        outp = os.path.join(ctx.work, "%s_%s.json" % (tag, order))
        env = dict(os.environ)
        if vary_env and order == "reverse":
            env.update({"PYTHONOPTIMIZE": "1", "PYTHONHASHSEED": str(4242 + ctx.seed)})
        procs.append((outp, subprocess.Popen([sys.executable, "-m", "harness.orderswap", ctx.repo, inp, outp, order], cwd=common.VERIF,
                                             stdout=subprocess.PIPE, stderr=subprocess.STDOUT, text=True, env=env)))
    res = []
    for outp, p in procs:
        so, _ = p.communicate(timeout=7200)
        if p.returncode != 0 or not os.path.exists(outp):
            raise tlc.MachineryError("order-swap process failed: " + so[-600:])
        res.append(json.load(open(outp)))
    return res[0], res[1]


def env_differential(ctx, items, clause, tag):
    """The same questions in a default interpreter and in one with assertions disabled and another hash seed: whether an
    argument is accepted or refused, and every reply, must be the same."""
    from . import objmodel
    fw, rv = run_both(ctx, items, tag=tag)
    for it, a, b in zip(items, fw, rv):
        ctx.evaluations += 1
        if not objmodel.same_reply(a["d"], b["d"]):
            ctx.violation(clause, {"seq": it["seq"], "call": it["q"], "args": it.get("a", []),
                                   "environment": "python -O (assertions disabled), PYTHONHASHSEED=%d" % (4242 + ctx.seed)},
                          expected=a["d"][:200], actual=b["d"][:200])
    ctx.extra["questions_repeated_in_another_interpreter_environment"] = len(items)


if __name__ == "__main__":
    main()
