"""Irrational kernels computed with 50-digit decimals (trusted base), scaled by 10^15."""
from decimal import Decimal, getcontext, ROUND_HALF_EVEN

from . import common

getcontext().prec = 60
_S = Decimal(10) ** 15


def entropy_row(k, W):
    """h[c] = round(-(c/W) * log_k(c/W) * 10^15) for c = 0..W, as limbs."""
    lnk = Decimal(k).ln()
    out = []
    for c in range(W + 1):
        if c == 0 or c == W:
            out.append([])
            continue
        p = Decimal(c) / Decimal(W)
        v = -(p * p.ln() / lnk) * _S
        out.append(common.limbs(int(v.to_integral_value(rounding=ROUND_HALF_EVEN))))
    return out


def pow10_fraction(x):
    """10**x for a Fraction/float x, as a Fraction accurate to ~50 digits."""
    from fractions import Fraction
    d = Decimal(x.numerator) / Decimal(x.denominator) if isinstance(x, Fraction) else Decimal(repr(float(x)))
    v = (d * Decimal(10).ln()).exp()
    return Fraction(v)
