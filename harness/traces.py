"""Batch validation of recorded traces by a Trace_*.tla module."""
import json
import math
import os
from decimal import Decimal, getcontext

from . import common, tlc


def sqrt_table(maxd):
    """floor(sqrt(d) * 10^15) as limbs, d = 1..maxd (TLC re-checks the bracket)."""
    return [common.limbs(math.isqrt(d * 10**30)) for d in range(1, maxd + 1)]


def validate(ctx, module, traces, extra_input=None, tag="v", workers=16, timeout=7200, shard=None,
             constants=None, spec="Spec", invariants=()):
    """Run TLC on spec/<module>.tla over `traces` (list of dicts with tid, ev).
    Returns dict tid -> ("accept",) | ("reject", ev_index, clause); known findings are appended to
    ctx.known by the caller through the returned `known` list."""
    if not traces:
        return {}, []
    inp = {"traces": traces}
    if extra_input:
        inp.update(extra_input)
    path = os.path.join(ctx.work, "trace_%s_%s.json" % (module, tag))
    with open(path, "w") as f:
        json.dump(inp, f)
    cfg = tlc.write_cfg(os.path.join(ctx.work, "%s_%s.cfg" % (module, tag)), spec=spec,
                        invariants=["NoReject"] + list(invariants), constants=constants)
    res = tlc.run_tlc(module, cfg, ctx.work, workers=workers, timeout=timeout, continue_=True,
                      env={"TRACE_FILE": path}, tag=tag)
    ctx.add_tlc(res)
    if res.errors or not res.completed:
        raise tlc.MachineryError("%s failed: %s" % (module, (res.errors[:2] or res.stdout[-1500:])))
    ctx.last_trace_result = res
    verdicts = {}
    for a in res.tagged.get("ACC", []):
        verdicts[a["tid"]] = ("accept",)
    for r in res.tagged.get("REJ", []):
        verdicts[r["tid"]] = ("reject", r["ev"], r["clause"])
    known = [(k["tid"], k["ev"], k["id"]) for k in res.tagged.get("KNOWN", [])]
    tids = [t["tid"] for t in traces]
    if set(verdicts) != set(tids) or len(tids) != len(set(tids)):
        raise tlc.MachineryError("%s: verdicts for %d of %d traces" % (module, len(verdicts), len(tids)))
    for tid, v in verdicts.items():
        if v[0] == "reject" and v[2].startswith("machinery:"):
            raise tlc.MachineryError("%s: trace %s: %s" % (module, tid, v[2]))
    nrej = sum(1 for v in verdicts.values() if v[0] == "reject")
    for v in res.violated:
        if v != "NoReject":
            ctx.violation("model:" + v, {"module": module})
    if (nrej > 0) != ("NoReject" in res.violated):
        raise tlc.MachineryError("%s: TLC invariant verdict and printed verdicts disagree" % module)
    return verdicts, known
