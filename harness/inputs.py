"""Shared by C13 / C14: platform tables (str.upper, str.isspace) for the code points of a batch,
the query battery used for 'answers every query like the object built from the string'."""
from . import common

BATTERY = ["get_sequence", "get_length", "get_kappa", "get_delta", "get_deltaMax", "get_FCR", "get_NCPR", "get_mean_hydropathy",
           "get_uversky_hydropathy", "get_SCD", "get_Omega", "get_phasePlotRegion", "get_molecular_weight", "get_countNeut",
           "get_fraction_disorder_promoting", "get_isoelectric_point", "get_HTMLColorString", "get_amino_acid_fractions"]


def tables(texts):
    cps = set()
    for t in texts:
        cps.update(ord(c) for c in t)
    upper = [[c, [ord(x) for x in chr(c).upper()]] for c in sorted(cps) if chr(c).upper() != chr(c)]
    space = [c for c in sorted(cps) if chr(c).isspace()]
    return {"upper": upper or [[97, [65]]], "space": space or [32]}


def battery(o):
    import numpy as np
    out = {}
    for q in BATTERY:
        v = common.call(getattr(o, q))
        if v[0] == "ok" and isinstance(v[1], np.ndarray):
            v = ("ok", v[1].tolist())
        out[q] = v
    out["len"] = common.call(len, o)
    out["str"] = common.call(str, o)
    out["linear_NCPR"] = common.call(lambda: o.get_linear_NCPR(min(3, len(o))).tolist())
    return out
