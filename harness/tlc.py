"""Run TLC / SANY / tlapm on the modules in /verif/spec and parse what they print.

Every invocation gets its own metadir under the property's work directory, an
outer timeout, and returns a TLCResult whose `ok` is False on anything that is
not a clean "Model checking completed. No error has been found." -- the
caller distinguishes property violations (invariant names) from machinery
failures.
"""
import json
import os
import re
import shutil
import subprocess
import time

SPEC_DIR = os.path.join(os.path.dirname(os.path.dirname(os.path.abspath(__file__))), "spec")
JAR = "/opt/veriftools/tla/tla2tools.jar"


class MachineryError(Exception):
    pass


class TLCResult:
    def __init__(self):
        self.generated = 0
        self.distinct = 0
        self.depth = 0
        self.recs = []          # parsed {"REC"} records
        self.tagged = {}        # other PrintT tags -> list of parsed payloads
        self.violated = []      # invariant / property names reported violated
        self.completed = False
        self.errors = []        # other TLC errors (evaluation errors, parse errors, ...)
        self.stdout = ""
        self.cmd = ""
        self.wall = 0.0
        self.coverage = {}      # action name -> count (when -coverage)

    @property
    def ok(self):
        return self.completed and not self.violated and not self.errors


_REC = re.compile(r'^<<"([A-Z]+)", "(.*)">>$')


def _classpath():
    cp = [JAR]
    cm = "/opt/veriftools/tla/CommunityModules-deps.jar"
    for cand in (cm, "/opt/veriftools/tla/CommunityModules.jar"):
        if os.path.exists(cand):
            cp.append(cand)
    return ":".join(cp)


def write_cfg(path, spec="Spec", constants=None, invariants=(), properties=(), constraints=(),
              action_constraints=(), postcondition=None, view=None, deadlock=False, init=None, next_=None):
    lines = []
    if init:
        lines.append("INIT %s" % init)
        lines.append("NEXT %s" % next_)
    else:
        lines.append("SPECIFICATION %s" % spec)
    if constants:
        lines.append("CONSTANTS")
        for k, v in constants.items():
            if isinstance(v, str) and v.startswith("<-"):          # operator parameter replaced by a definition of the root module
                lines.append("  %s <- %s" % (k, v[2:].strip()))
            else:
                lines.append("  %s = %s" % (k, tla_value(v)))
    for i in invariants:
        lines.append("INVARIANT %s" % i)
    for p in properties:
        lines.append("PROPERTY %s" % p)
    for c in constraints:
        lines.append("CONSTRAINT %s" % c)
    for c in action_constraints:
        lines.append("ACTION_CONSTRAINT %s" % c)
    if postcondition:
        lines.append("POSTCONDITION %s" % postcondition)
    if view:
        lines.append("VIEW %s" % view)
    lines.append("CHECK_DEADLOCK %s" % ("TRUE" if deadlock else "FALSE"))
    with open(path, "w") as f:
        f.write("\n".join(lines) + "\n")
    return path


def tla_value(v):
    """Python value -> TLA+ cfg literal."""
    if isinstance(v, bool):
        return "TRUE" if v else "FALSE"
    if isinstance(v, int):
        return str(v)
    if isinstance(v, str):
        if v.startswith("@"):       # raw TLA text
            return v[1:]
        return '"%s"' % v
    if isinstance(v, (list, tuple)):
        return "<<" + ", ".join(tla_value(x) for x in v) + ">>"
    if isinstance(v, (set, frozenset)):
        return "{" + ", ".join(tla_value(x) for x in sorted(v, key=repr)) + "}"
    if isinstance(v, dict):
        return "[" + ", ".join("%s |-> %s" % (k, tla_value(x)) for k, x in v.items()) + "]"
    raise TypeError(v)


def run_tlc(module, cfg, workdir, workers=16, timeout=3600, env=None, extra=(), simulate=None,
            continue_=False, coverage=False, tag="run", dfs=False, heap=None):
    """Run TLC on spec/<module>.tla with config file `cfg` (absolute path)."""
    os.makedirs(workdir, exist_ok=True)
    meta = os.path.join(workdir, "meta_%s_%d" % (tag, int(time.time() * 1000) % 10**9))
    shutil.rmtree(meta, ignore_errors=True)
    jopts = ["-XX:+UseParallelGC", "-Xss32m", "-DTLA-Library=" + SPEC_DIR]
    if heap:
        jopts.append("-Xmx%s" % heap)
    if dfs:
        jopts.append("-Dtlc2.tool.queue.IStateQueue=StateDeque")
    cmd = ["java"] + jopts + ["-cp", JAR, "tlc2.TLC", "-workers", str(workers), "-metadir", meta,
                             "-noGenerateSpecTE", "-config", cfg]
    if continue_:
        cmd.append("-continue")
    if coverage:
        cmd += ["-coverage", "1"]
    if simulate:
        cmd += ["-simulate", simulate]
    cmd += list(extra)
    modpath = module if os.path.isabs(module) else os.path.join(SPEC_DIR, module + ".tla")
    cmd.append(modpath)
    e = dict(os.environ)
    e.pop("JAVA_TOOL_OPTIONS", None)
    if env:
        e.update(env)
    t0 = time.time()
    try:
        p = subprocess.run(cmd, cwd=os.path.dirname(modpath), env=e, stdout=subprocess.PIPE, stderr=subprocess.STDOUT,
                           timeout=timeout, text=True, errors="replace")
    except subprocess.TimeoutExpired as ex:
        shutil.rmtree(meta, ignore_errors=True)
        raise MachineryError("TLC timeout after %ss: %s" % (timeout, " ".join(cmd)))
    res = parse_tlc_output(p.stdout)
    res.cmd = " ".join(cmd)
    res.wall = time.time() - t0
    shutil.rmtree(meta, ignore_errors=True)
    return res


def parse_tlc_output(out):
    res = TLCResult()
    res.stdout = out
    lines = out.splitlines()
    i = 0
    while i < len(lines):
        ln = lines[i]
        m = _REC.match(ln)
        if m:
            try:
                payload = json.loads(json.loads('"' + m.group(2) + '"'))
            except Exception:
                res.errors.append("unparsable record line: %r" % ln[:200])
                i += 1
                continue
            if m.group(1) == "REC":
                res.recs.append(payload)
            else:
                res.tagged.setdefault(m.group(1), []).append(payload)
        elif ln.startswith("Error: Invariant ") and " is violated" in ln:
            res.violated.append(ln[len("Error: Invariant "):].split(" is violated")[0])
        elif ln.startswith("Error: Action property ") and " is violated" in ln:
            res.violated.append(ln[len("Error: Action property "):].split(" is violated")[0])
        elif ln.startswith("Error: Temporal properties were violated"):
            res.violated.append("TemporalProperty")
        elif "Error: The postcondition" in ln or ln.startswith("Error: Postcondition"):
            res.violated.append("Postcondition")
        elif ln.startswith("Error: Deadlock reached"):
            res.violated.append("Deadlock")
        elif ln.startswith("Error:") or "***Parse Error***" in ln or ln.startswith("*** Errors:"):
            if "The behavior up to this point is" not in ln and "The first argument of Assert" not in ln:
                res.errors.append(" ".join(lines[i:i + 6])[:600])
        elif "Exception in thread" in ln or "java.lang.StackOverflowError" in ln or "OutOfMemoryError" in ln:
            res.errors.append(ln[:300])
        elif ln.startswith("Model checking completed. No error has been found."):
            res.completed = True
        else:
            m2 = re.match(r"^(\d+) states generated, (\d+) distinct states found", ln)
            if m2:
                res.generated = int(m2.group(1))
                res.distinct = int(m2.group(2))
            m3 = re.match(r"^The depth of the complete state graph search is (\d+)", ln)
            if m3:
                res.depth = int(m3.group(1))
            m4 = re.match(r"^<(\w+) line \d+, col \d+ to line \d+, col \d+ of module (\w+)>: (\d+):(\d+)", ln)
            if m4:
                res.coverage[m4.group(1)] = res.coverage.get(m4.group(1), 0) + int(m4.group(4))
        i += 1
    # with -continue TLC does not print "No error has been found" when there were violations;
    # treat "finished" + counts as completion
    if not res.completed and res.generated and any(l.startswith("Finished in") for l in lines):
        res.completed = True
    return res


def sany(module_path):
    p = subprocess.run(["java", "-cp", JAR, "tla2sany.SANY", module_path], cwd=os.path.dirname(module_path),
                       stdout=subprocess.PIPE, stderr=subprocess.STDOUT, text=True, timeout=300)
    bad = ("***Parse Error***" in p.stdout) or ("*** Errors:" in p.stdout) or ("Fatal errors" in p.stdout) \
        or ("Could not" in p.stdout and "parse" in p.stdout) or p.returncode != 0
    return (not bad), p.stdout
