#!/bin/bash
# Build step of the framework: everything is interpreted (TLA+ / Python); parse every module so a
# broken spec fails fast, and create the scratch directories.
set -e
cd "$(dirname "$0")"
mkdir -p evidence replays .work
fail=0
for f in spec/*.tla; do
  # Proofs.tla extends the TLAPS module, which only the proof manager's library has; it is checked by tlapm in the C08 check
  [ "$f" = "spec/Proofs.tla" ] && continue
  [ "$f" = "spec/ProofsGeometry.tla" ] && continue      # likewise, proved by tlapm inside the C10 and C11 checks
  [ "$f" = "spec/ProofsWL.tla" ] && continue            # likewise, inside the C18 check
  out=$(cd spec && java -cp /opt/veriftools/tla/tla2tools.jar tla2sany.SANY "$(basename "$f")" 2>&1) || true
  if echo "$out" | grep -q -e "\*\*\*Parse Error\*\*\*" -e "\*\*\* Errors:" -e "Fatal errors" -e "Could not find module"; then
    echo "SANY failed on $f"; echo "$out" | tail -20; fail=1
  fi
done
/venv/bin/python -c "import numpy, matplotlib" || fail=1
[ $fail = 0 ] && echo "setup ok"
exit $fail
