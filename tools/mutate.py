#!/venv/bin/python
"""Mechanical first-order mutants of the library (a complement to the hand-seeded defects): comparison / arithmetic operator swaps,
constants nudged, conditions negated, inside the functions a listed property is anchored in.

  tools/mutate.py gen <n> <seed>     sample n mutants -> seeded/auto/<id>/patch.diff + meta.json (only those that keep the pinned
                                    suite at 42 passed / the same 10 failing tests)
  tools/mutate.py run               run the mapped property's quick check against each in a scratch worktree -> seeded/auto/RESULTS.json
"""
import ast, copy, json, os, random, shutil, subprocess, sys, time

V = os.path.dirname(os.path.dirname(os.path.abspath(__file__)))
S = os.path.join(V, "seeded", "auto")
PY = "/venv/bin/python"
FILES = {"localcider/backend/sequence.py": None, "localcider/backend/sequenceComplexity.py": None, "localcider/backend/seqfileparser.py": "C14",
         "localcider/backend/wang_landau.py": None, "localcider/sequenceParameters.py": None}
if os.environ.get("MUTATE_FILES"):
    FILES = {k: v for k, v in FILES.items() if any(x in k for x in os.environ["MUTATE_FILES"].split(","))}
FUNC = {"kappa": "C01", "delta": "C02", "deltaForm": "C02", "sigma": "C02", "deltaMax": "C03", "FCR": "C04", "NCPR": "C04", "Fplus": "C04", "Fminus": "C04",
        "countPos": "C04", "countNeg": "C04", "countNeut": "C04", "FER": "C04", "mean_net_charge": "C04", "molecular_weight": "C04", "meanHydropathy": "C04",
        "uverskyHydropathy": "C04", "meanWWHydropathy": "C04", "FPPII_chain": "C04", "fraction_disorder_promoting": "C04", "amino_acid_fraction": "C04",
        "sequence_charge_decoration": "C07", "Omega": "C06", "Omega_seq": "C06", "kappa_X": "C06", "phasePlotRegion": "C08", "charge_at_pH": "C09",
        "isoelectric_point": "C09", "linearDistOfNCPR": "C10", "linearDistOfFCR": "C10", "linearDistOfSigma": "C10", "linearDistOfHydropathy": "C10",
        "linearDenistyOfAAs": "C10", "linearCompositions": "C10", "get_linear_WF_complexity": "C11", "get_linear_LC_complexity": "C11",
        "get_linear_LZW_complexity": "C11", "get_reducedAlphabetSequence": "C12", "validateSequence": "C13", "setPhosPhoSites": "C16",
        "clear_phosphosites": "C16", "calculateKappaDistOfPhosphoStates": "C16", "get_phosphosequence": "C16", "kappa_at_maxPhos": "C16",
        "get_STY_residues": "C16", "swapRes": "C17", "swapRandChargeRes": "C17", "full_shuffle": "C17", "permute_cluster_charges": "C17",
        "permute_block_swap": "C17", "set_HTMLColorResiduePalette": "C20", "get_HTMLColorString": "C20",
        "CWF": "C11", "LC": "C11", "LZW": "C11", "get_WF_complexity": "C11", "get_LC_complexity": "C11", "get_LZW_complexity": "C11",
        "get_indexed_complexity_vector": "C11", "reduce_alphabet": "C12", "parseSeqFile": "C14",
        # the sampler
        "run_normal_WL": "C18", "run_flatcheck": "C18", "getBinCenters": "C18", "getBinSize": "C18", "indexInsideRelevantRegion": "C18",
        # the public class
        "get_kappa": "C01", "get_delta": "C02", "get_deltaMax": "C03", "get_FCR": "C04", "get_NCPR": "C04", "get_fraction_expanding": "C09",
        "get_mean_net_charge": "C09", "get_Omega": "C06", "get_kappa_X": "C06", "get_Omega_sequence": "C06", "get_SCD": "C07",
        "get_phasePlotRegion": "C08", "get_isoelectric_point": "C09", "verify_pH": "C09", "get_linear_NCPR": "C10", "get_linear_FCR": "C10",
        "get_linear_sigma": "C10", "get_linear_hydropathy": "C10", "get_linear_sequence_composition": "C10", "get_linear_complexity": "C11",
        "get_reduced_alphabet_sequence": "C12", "set_phosphosites": "C16", "get_full_phosphostatus_kappa_distribution": "C16",
        "get_kappa_after_phosphorylation": "C16", "get_phosphosequence": "C16", "get_shuffled_sequence": "C17", "get_PPII_propensity": "C04",
        "get_molecular_weight": "C04", "get_amino_acid_fractions": "C04", "show_phaseDiagramPlot": "C19", "save_phaseDiagramPlot": "C19",
        "show_uverskyPlot": "C19", "save_uverskyPlot": "C19", "show_linearNCPR": "C19", "save_linearNCPR": "C19"}
CMP = {ast.Lt: ast.LtE, ast.LtE: ast.Lt, ast.Gt: ast.GtE, ast.GtE: ast.Gt, ast.Eq: ast.NotEq, ast.NotEq: ast.Eq}
BIN = {ast.Add: ast.Sub, ast.Sub: ast.Add, ast.Mult: ast.Div, ast.Div: ast.Mult}


def sh(cmd, **kw):
    return subprocess.run(cmd, shell=True, stdout=subprocess.PIPE, stderr=subprocess.STDOUT, text=True, **kw)


def sites(tree, default):
    """(function, node path index, kind) for every mutable node inside a mapped function."""
    out = []
    for fn in ast.walk(tree):
        if not isinstance(fn, ast.FunctionDef):
            continue
        short = fn.name.split("__")[-1] if fn.name.startswith("_") else fn.name
        if fn.name in FUNC or default or short in FUNC:
            prop = FUNC.get(fn.name) or FUNC.get(short) or default
            if not prop:
                continue
            for node in ast.walk(fn):
                if isinstance(node, ast.Compare) and len(node.ops) == 1 and type(node.ops[0]) in CMP:
                    out.append((fn.name, prop, node, "cmp"))
                elif isinstance(node, ast.BinOp) and type(node.op) in BIN:
                    out.append((fn.name, prop, node, "bin"))
                elif isinstance(node, ast.Constant) and isinstance(node.value, (int, float)) and not isinstance(node.value, bool):
                    out.append((fn.name, prop, node, "const"))
                elif isinstance(node, ast.If):
                    out.append((fn.name, prop, node, "negate"))
    return out


def mutate(node, kind, rng):
    if kind == "cmp":
        old = type(node.ops[0]).__name__
        node.ops[0] = CMP[type(node.ops[0])]()
        return "%s -> %s" % (old, type(node.ops[0]).__name__)
    if kind == "bin":
        old = type(node.op).__name__
        node.op = BIN[type(node.op)]()
        return "%s -> %s" % (old, type(node.op).__name__)
    if kind == "const":
        old = node.value
        node.value = (old + rng.choice([1, -1])) if isinstance(old, int) else old * rng.choice([1.01, 0.99])
        return "%r -> %r" % (old, node.value)
    node.test = ast.UnaryOp(op=ast.Not(), operand=node.test)
    return "condition negated"


def baseline_failures(wt):
    r = sh("%s -m pytest -q -p no:cacheprovider 2>&1 | grep -E '^FAILED|passed|failed'" % PY, cwd=wt, timeout=1800)
    return sorted(l.split(" ")[1] for l in r.stdout.splitlines() if l.startswith("FAILED")), r.stdout.strip().splitlines()[-1]


def gen(n, seed):
    rng = random.Random(seed)
    os.makedirs(S, exist_ok=True)
    wt = "/tmp/auto_mut_wt"
    sh("git -C /repo worktree remove --force %s" % wt)
    sh("git -C /repo worktree add -q --detach %s HEAD" % wt)
    base, summary = baseline_failures(wt)
    print("baseline:", summary)
    # the normalised (ast.unparse) form of each file is the reference the patch is taken against
    cands = []
    for rel, default in FILES.items():
        src = open(os.path.join(wt, rel)).read()
        tree = ast.parse(src)
        for k, (fn, prop, node, kind) in enumerate(sites(tree, default)):
            cands.append((rel, k, fn, prop, kind, getattr(node, "lineno", 0)))
    rng.shuffle(cands)
    made = 0
    for rel, k, fn, prop, kind, line in cands:
        if made >= n:
            break
        mid = "A%03d-%s" % (len(os.listdir(S)), prop)
        src = open(os.path.join(wt, rel)).read()
        tree = ast.parse(src)
        site = sites(tree, FILES[rel])[k]
        what = mutate(site[2], kind, rng)
        # line-preserving rewrite: replace only the source segment of the mutated node
        seg_old = ast.get_source_segment(src, site[2] if kind != "negate" else site[2].test.operand)
        node_new = site[2] if kind != "negate" else site[2].test
        seg_new = ast.unparse(node_new)
        if seg_old is None:
            continue
        target = site[2] if kind != "negate" else site[2].test.operand
        lines = src.split("\n")
        l0, c0, l1, c1 = target.lineno - 1, target.col_offset, target.end_lineno - 1, target.end_col_offset
        if l0 != l1:
            continue
        lines[l0] = lines[l0][:c0] + "(" + seg_new + ")" + lines[l0][c1:]
        open(os.path.join(wt, rel), "w").write("\n".join(lines))
        comp = sh("%s -c \"import ast,sys; ast.parse(open('%s').read())\"" % (PY, os.path.join(wt, rel)))
        if comp.returncode:
            sh("git -C %s checkout -- ." % wt)
            continue
        fails, summ = baseline_failures(wt)
        if fails != base or "42 passed" not in summ:
            sh("git -C %s checkout -- ." % wt)
            continue
        d = os.path.join(S, mid)
        os.makedirs(d)
        # bytes, not text: files with CRLF line endings (wang_landau.py) must keep them in the patch
        open(os.path.join(d, "patch.diff"), "wb").write(subprocess.run("git -C %s diff" % wt, shell=True, stdout=subprocess.PIPE).stdout)
        json.dump({"property": prop, "file": rel, "function": fn, "line": line, "kind": kind, "what": what, "suite": summ}, open(os.path.join(d, "meta.json"), "w"), indent=1)
        sh("git -C %s checkout -- ." % wt)
        made += 1
        print(mid, rel.split("/")[-1], fn, line, kind, what, flush=True)
    sh("git -C /repo worktree remove --force %s" % wt)


def run():
    resf = os.path.join(S, "RESULTS.json")
    results = json.load(open(resf)) if os.path.exists(resf) else {}
    for mid in sorted(os.listdir(S)):
        d = os.path.join(S, mid)
        if not os.path.isdir(d) or mid in results:
            continue
        meta = json.load(open(os.path.join(d, "meta.json")))
        pid = meta["property"]
        wt = "/tmp/auto_mut_run"
        sh("git -C /repo worktree remove --force %s" % wt)
        sh("git -C /repo worktree add -q --detach %s HEAD" % wt)
        try:
            if sh("git -C %s apply %s/patch.diff" % (wt, d)).returncode:
                print(mid, "PATCH DOES NOT APPLY"); continue
            evf = os.path.join(V, "evidence", pid + ".json")
            keep = open(evf).read() if os.path.exists(evf) else None
            t0 = time.time()
            r = sh("./check %s --repo %s" % (pid, wt), cwd=V, timeout=7200)
            if keep is not None:
                open(evf, "w").write(keep)
            shutil.rmtree(os.path.join(V, "replays", pid), ignore_errors=True)
            clauses = sorted({l.split("clause=")[1].strip() for l in r.stdout.splitlines() if l.startswith("VIOLATION") and "clause=" in l})
            results[mid] = {"property": pid, "exit": r.returncode, "clauses": clauses[:6], "wall_s": round(time.time() - t0, 1), "function": meta["function"], "what": meta["what"], "line": meta["line"]}
            print(mid, pid, "exit", r.returncode, clauses[:3], meta["function"], meta["line"], meta["what"], flush=True)
            json.dump(results, open(resf, "w"), indent=1, sort_keys=True)
        finally:
            sh("git -C /repo worktree remove --force %s" % wt)


if __name__ == "__main__":
    if sys.argv[1] == "gen":
        gen(int(sys.argv[2]), int(sys.argv[3]))
    else:
        run()
