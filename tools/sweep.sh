#!/bin/bash
# sweep.sh "<ids>" "<seeds>" [tier]: run checks under several seeds; print one line per run (used in background runs)
cd "$(dirname "$0")/.."
ids=${1:-"C01 C02 C03 C04 C05 C06 C07 C08 C09 C10 C11 C12 C13 C14 C15 C16 C17 C18 C19 C20"}
seeds=${2:-"1 2 3"}
tier=${3:-quick}
bad=0
for s in $seeds; do for p in $ids; do
  out=$(VERIF_SEED=$s timeout 7200 ./check $p --tier $tier 2>&1); rc=$?
  echo "seed=$s $p rc=$rc $(echo "$out" | tail -1)"
  if [ $rc != 0 ]; then bad=1; echo "$out" | grep -A2 "VIOLATION\|MACHINERY" | head -12; fi
done; done
exit $bad
