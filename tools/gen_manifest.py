#!/venv/bin/python
"""Regenerate /verif/MANIFEST.json from the table below (one entry per claimed property)."""
import json, os, subprocess
V = os.path.dirname(os.path.dirname(os.path.abspath(__file__)))
HOOK = subprocess.check_output(["git", "-C", "/repo", "log", "--format=%H", "--grep=^verif hook", "-n", "5"], text=True).split()

NOTE = "bounded-exhaustive up to the stated bound, sampled beyond; floats compared with exact rationals at 1e-9 relative tolerance; TLC, the BigNat/Rat modules and the Python replay glue are trusted"
CLAIMED = {
 "C01": ("7 C01", "TLC model checking of the patterning spec (every charge pattern up to a length bound is a state: sentinel iff no arrangement has variance, kappa well defined, out of range only through the documented family = finding K1) + replay of every state into get_kappa/get_delta/get_deltaMax, clause by clause + TLC trace validation of replies recorded on long random and skewed sequences with call histories", NOTE),
 "C03": ("7 C03", "TLC model checking over composition space (every (p,n,z) up to a bound plus the 17/18-neutral boundary slab: maximum attained inside the documented family, symmetric, regimes partition) + every composition realised through several permutations/spellings with get_deltaMax()/get_deltaMax(True) fresh, after get_kappa and after random histories, all judged by TLC (value = family maximum, permutant is a rearrangement with exactly that delta)", NOTE),
 "C04": ("7 C04", "TLC model checking of the composition spec (every sequence over a small alphabet up to a bound and over all 20 residues up to length 2: position sum = count form, permutation invariance, FCR/NCPR identities, fractions sum to 1) + replay of every state into the 18 scalar getters and the 20 amino-acid fractions against TLC's exact rationals + TLC trace validation of replies recorded on random sequences and their permutations, with call histories", NOTE),
 "C06": ("7 C06", "TLC model checking of the recoding laws (every sequence over 5 letters up to a bound x every group pair: swap, complement, Omega = kappa_X(PEDKR), kappa = kappa_X(ED,KR); kappa-level through inversion invariance in MC_Patterning) + relations between real replies and TLC trace validation of every get_Omega / get_kappa_X / get_Omega_sequence reply on exhaustive short and random sequences x random groups", NOTE),
 "C08": ("7 C08", "TLAPS proof (unbounded: the coded cascade is total, equals the documented thresholds, signs of regions 4/5) + TLC model checking of the same over every (p,n,z) up to a bound + every triple realised as a sequence and replayed into get_phasePlotRegion", NOTE + "; TLAPS SMT back end trusted"),
 "C10": ("7 C10", "TLAPS proof over module Geometry (unbounded: the coded flank arithmetic is the documented placement, flanks add up to w-1) + TLC model checking of the profile spec (every sequence over 6 letters up to a bound x every window: coded flank arithmetic = documented placement, w=N value = global parameter, delta = mean squared deviation of the w=5,6 sigma profiles) + replay of every state x every window 1..N+3 into the five get_linear_* calls against TLC's exact profiles + TLC trace validation on random sequences x windows x user group lists", NOTE),
 "C11": ("7 C11", "TLAPS proof over module Geometry (unbounded: K = floor((N-w)/s)+1 windows fit and K+1 do not; the coded position row has K strictly increasing entries in 1..N) + TLC model checking of the complexity geometry (every (N,w,s) up to a bound: K windows, coded position row strictly increasing in 1..N; LC/LZW in [0,1] on every 3-letter window) + TLC trace validation of every get_linear_complexity reply on exhaustive short and random sequences (K, positions, range, locality against the window alone, WF = entropy kernel over reduced counts; unknown type / w>N rejected)", NOTE + "; the entropy kernel -(c/W)log_k(c/W) is computed by the harness with 60-digit decimals"),
 "C12": ("7 C12", "TLC model checking of the documented partitions (exactly size groups, disjoint cover, idempotent homomorphism; sizes 0..25) + the real residue map of all 12 sizes x 20 residues and replies on random sequences / user alphabets of every class judged by TLC against the partitions and the acceptance rule", NOTE),
 "C13": ("7 C13", "TLC model checking of string normalisation (every token string up to a bound over ten character classes: clean, idempotent, foreign/blank rejected, whitespace irrelevant) + replay of every state with seeded concrete characters into SequenceParameters() + TLC trace validation (Trace_Input) of constructions recorded for case/whitespace-injected sequences and every code point 0..0x2FF (+ Unicode sample) at every position", NOTE + "; Python's str.upper/str.isspace tables are exported to TLC as data"),
 "C14": ("7 C14", "TLC model checking of the file-parser state machine (every file up to a bound over ten character classes built and parsed by BlankLine/HeaderLine/SeqLine/Finish actions: the machine accepts exactly the documentation's reading with the same residues; reject sticky; one header) + replay of every such file through real files into parseSeqFile / SequenceParameters(sequenceFile=) + TLC trace validation of realistic layouts and all single-character corruptions", NOTE),
 "C15": ("7 C15", "TLC model checking of the object state machine (SeqObject: 2 objects, both delta-max caches and the shared default argument modelled as coded, all query kinds, mutators, children): full reachable graph, HistoryIndependent, CacheSound, ReadOnlyFrame, CrossObjectFrame + every TLC behaviour of bounded length stepped through real objects (abstract state compared after each action, replies compared with a fresh twin and across histories) + TLC trace validation (Trace_Object) of random 30-200 call histories on 3 live objects, of scripted parent/child histories and of several thousand questions asked in two pristine processes in opposite orders (the second under python -O and another hash seed)", NOTE + "; hidden state read through plain attributes; hidden cache flags that deviate from the automaton are reported as conformance notes, not alarms"),
 "C16": ("7 C16", "TLC model checking of the phosphosite rule (every argument of up to two positions in -2..8 on two sequences: SitesValid, NoRepeats, SetSemantics = documentation's reading, ClearEmpties, SeqImmutable) + every TLC behaviour replayed on a real object + phosphosequence / kappa after phosphorylation / 2^k distribution (order, bits, six values) judged by TLC for every reached state + TLC trace validation of random set/clear series with arbitrary integers", NOTE),
 "C20": ("7 C20", "TLC model checking of rendering as a token sequence (strip recovers the sequence, space exactly before residues 0,10,.., break exactly before 0,50,.., colour = palette entry; length classes up to 151) and of palette updates (PaletteAtomic, PaletteTotal over valid / extra key / missing key / invalid colour / wrong case) + TLC behaviours replayed on real objects + TLC trace validation: every real rendering tokenised and compared with Render(sequence, palette) of the tracked state", NOTE),
 "C17": ("7 C17", "TLC model checking of the moves with every random draw explicit (every sequence over 3 letters up to a bound x every frozen set x every outcome of the draws: only rearranges, keeps frozen, swaps succeed, carried delta-max valid) + every such case replayed into the real backend move through an RNG tape + TLC trace validation (Trace_Moves) of chains of random moves, get_shuffled_sequence and get_permutant recorded with a seeded RNG", NOTE + "; which child a given draw produces is compared with the spec's transcription only as a conformance note"),
 "C18": ("7 C18", "TLAPS proof over module WLCore (unbounded: g - gprev = H * ln f and the stop rule are inductive over step and flat check, a step never leaves the window) + TLC model checking of the Wang-Landau state machine over bins (every start bin, proposal and allowed decision to a bounded depth: NeverLeavesWindow, CountRule, FlatRule, NoEarlyReset, ScheduleRule, GIncrement, StopRule) + TLC trace validation (Trace_WL) of real run_normal_WL runs recorded through the guarded hook and a seeded recording RNG: every step, flat check, the returned array and the DOS / histogram / glog / sequence-log files, including a run at the default threshold and one on a chain above 1000 residues", NOTE + "; TLAPS SMT back end trusted; math.log used by the encoder to put ln f and ln p on the 2^-k grid (residual-checked)"),
 "C19": ("7 C19", "TLC model checking of the figure geometry (the five region polygons are read from the real figure and, for every composition up to a bound, the marker must lie in the closed polygon of its region and in no other's interior, exact integer arithmetic) + TLC trace validation (Trace_Plots) of the figure records of every diagram-of-states / Uversky entry point x argument combinations and of the linear-profile bar plots", NOTE + "; matplotlib's object model (Agg) is read, not pixels"),
 "C09": ("7 C09", "TLC model checking of the isoelectric-point bisection as a state machine against every monotone three-zone sign oracle on a 1/16 pH grid (never raises, result in the zone, terminates under fairness) + TLC trace validation of get_FCR/NCPR/mean_net_charge/fraction_expanding(pH) as Henderson-Hasselbalch sums (0.1 pH grid x single residues and extreme compositions with a 10^x table TLC verifies by a tenth-power bracket; random sequences x random pH with a trusted kernel), rejection outside [0,14], and of get_isoelectric_point (neutral within 0.02 at the returned pH)", NOTE + "; 10^x for off-grid pH computed by the harness with 60-digit decimals"),
 "C05": ("7 C05", "TLC model checking (delta numerator, SCD coefficients and delta-max invariant under reversal / inversion / p<->n for every pattern up to a bound) + replay of every state with random class-preserving substitutions, reversal and inversion into the five getters + TLC trace validation of base and variants on long random sequences", NOTE),
 "C07": ("7 C07", "TLC model checking of the SCD coefficients (zero with < 2 charges, pattern-only, symmetric) + replay of every pattern up to a bound into get_SCD + TLC trace validation on long random / strongly correlated sequences with a sqrt table whose bracket TLC verifies", NOTE),
 "C02": ("7 C02", "TLC model checking of the patterning spec (every charge pattern up to a length bound is a state; the scaled-integer delta is shown equal to the Das-Pappu definition in exact rationals) + replay of every TLC state into get_delta + TLC trace validation (Trace_Queries) of get_delta replies recorded from the real code on long random sequences with random call histories",
         "bounded-exhaustive in pattern space up to the stated length, sampled beyond; floats compared with exact rationals at 1e-9 relative tolerance; TLC and the BigNat/Rat modules are trusted"),
}
TECH = "explicit TLA+ spec model-checked with TLC; TLC-generated states replayed into the real code; traces recorded from the real code validated by TLC against the spec"

props = [json.loads(l) for l in open(os.path.join(V, "properties.jsonl"))]
checks = []
na = []
NA_REASON = {}
for p in props:
    pid = p["id"]
    if pid in CLAIMED:
        ref, text, note = CLAIMED[pid]
        checks.append({
            "property_id": pid,
            "quick_cmd": "./check %s --tier quick" % pid,
            "thorough_cmd": "./check %s --tier thorough" % pid,
            "evidence_file": "evidence/%s.json" % pid,
            "replay_cmd_template": "./check %s --replay {path}" % pid,
            "engine": "tlc",
            "level_claimed": {"category": "model_checking", "text": text, "design_ref": "DESIGN.md section " + ref},
            "level_note": note,
            "technique": TECH,
        })
    else:
        na.append({"property_id": pid, "reason": NA_REASON.get(pid, "check not built yet in this round (planned, see DESIGN.md section 7)")})
m = {
 "version": 1,
 "setup_cmd": "./setup.sh",
 "hooks": {"guard": "LOCALCIDER_VERIF", "enable": "environment variable LOCALCIDER_VERIF=1 set by the harness before importing localcider from /repo (pure Python: no build step)",
           "baseline_off_cmd": "cd /repo && env -u LOCALCIDER_VERIF /venv/bin/python -m pytest -ra -q -p no:cacheprovider --timeout=900 --continue-on-collection-errors",
           "source_commits": HOOK, "add_only": True},
 "engines": [{"name": "tlc", "path": "/opt/veriftools/tla/tla2tools.jar", "serves_properties": sorted(CLAIMED),
              "kind_free_text": "TLC 1.8 explicit-state model checker over /verif/spec (BigNat/Rat exact arithmetic in pure TLA+), Python harness for replay and trace recording"}],
 "checks": checks,
 "not_applicable": na,
 "notes": "All checks: ./check <ID> --tier quick|thorough; honours VERIF_SEED, VERIF_TIER, VERIF_REPO. exit 0 held / 1 VIOLATION / 2 machinery failure. Known findings in known_findings.json.",
}
if not na:
    del m["not_applicable"]
json.dump(m, open(os.path.join(V, "MANIFEST.json"), "w"), indent=1)
print("claimed", sorted(CLAIMED), "n/a", [x["property_id"] for x in na])
