#!/venv/bin/python
"""Binding demonstrations (not part of the registered checks): the specification must reject what it should.

  1. MC_Object with LegacyCache = TRUE: TLC finds the F1/F2 counterexamples (HistoryIndependent violated).
  2. a recorded Wang-Landau run is accepted; with one histogram entry corrupted, one ln p changed, or one event dropped it
     is rejected at exactly that event.
  3. a recorded object history is accepted; with one logged phosphosite list corrupted it is rejected there.
  4. a recorded query trace is accepted; with one reply perturbed by 1e-6 it is rejected.
  5. with the hook guard off the C18 driver refuses to run (machinery failure, not a verdict).
  6. -coverage 1 on the state-machine instances: no action with a zero count.
"""
import copy, json, os, subprocess, sys
V = os.path.dirname(os.path.dirname(os.path.abspath(__file__)))
sys.path.insert(0, V)
from harness import common, tlc, traces, objmodel
from harness.drivers import c15, c18

ctx = common.Ctx("SELFTEST", "quick", 0, os.environ.get("VERIF_REPO", "/repo"))
os.makedirs(ctx.work, exist_ok=True)
lc = common.load_repo(ctx.repo)
ok = True
def report(name, passed, detail=""):
    global ok
    ok &= bool(passed)
    print("%-70s %s %s" % (name, "ok" if passed else "FAILED", detail))

# 1
cfg = c15.write_obj_cfg(os.path.join(ctx.work, "legacy.cfg"), c15.obj_constants(True, legacy=True), "Spec", ["HistoryIndependent"], [])
res = tlc.run_tlc("MC_Object", cfg, ctx.work, tag="legacy")
report("1. LegacyCache=TRUE: TLC reports HistoryIndependent violated (F1/F2)", "HistoryIndependent" in res.violated)

# 2
tr = c18.one_run(ctx, lc, 1, "KEKEKEGGKEKE", (4, 0, 10), 100, 500, 2, 7, 30000)
tr.pop("case"); tr.pop("finished")
def wl(trace):
    c = common.Ctx("SELFTEST", "quick", 0, ctx.repo); c.work = ctx.work
    v, _ = traces.validate(c, "Trace_WL", [trace], spec="TSpec", invariants=["RunInvariants"], tag="st", constants=c18.WLARITH)
    return v[1]
report("2a. recorded WL run (%d events) accepted" % len(tr["ev"]), wl(tr)[0] == "accept")
steps = [i for i, e in enumerate(tr["ev"]) if e["ev"] == "step"]
k = steps[len(steps) // 2]
t2 = copy.deepcopy(tr); t2["ev"][k]["H"][0] += 1
v = wl(t2); report("2b. one H entry corrupted -> rejected at that event", v[0] == "reject" and v[1] == k + 1, str(v))
t3 = copy.deepcopy(tr)
kk = next(i for i in steps if not tr["ev"][i]["skip"])
t3["ev"][kk]["lnp"] -= 1
v = wl(t3); report("2c. one ln p changed -> rejected at that event", v[0] == "reject" and v[1] == kk + 1, str(v))
t4 = copy.deepcopy(tr); del t4["ev"][k]
v = wl(t4); report("2d. one event dropped -> rejected at the gap", v[0] == "reject" and v[1] == k + 1, str(v))

# 3
defaults = objmodel.Defaults(lc)
h = c15.record_history(ctx, lc, defaults, 1, 3, 60)
def obj(trace):
    c = common.Ctx("SELFTEST", "quick", 0, ctx.repo); c.work = ctx.work
    consts = {"ObjIds": {1, 2, 3}, "Pool": set(), "SiteArgs": set(), "PalArgs": set(), "LegacyCache": False}
    v, _ = traces.validate(c, "Trace_Object", [trace], constants=consts, spec="TSpec", tag="st")
    return v[1]
report("3a. recorded object history (%d events) accepted" % len(h["ev"]), obj(h)[0] == "accept")
i = max(j for j, e in enumerate(h["ev"]) if e["kind"] != "construct")
h2 = copy.deepcopy(h)
live = next(o for o in h2["ev"][i]["post"]["objs"] if o.get("alive"))
live["sites"] = live["sites"] + [1]
v = obj(h2); report("3b. one logged phosphosite list corrupted -> rejected there", v[0] == "reject" and v[1] == i + 1, str(v))

# 4
o = lc.SP("KEKEGSKKEEPYTRRDDLKKEE")
q = {"tid": 1, "seq": list(o.get_sequence()), "ev": [{"q": "delta", "r": common.fx(o.get_delta())}, {"q": "kappa", "r": common.fx(o.get_kappa())}]}
def qv(trace):
    c = common.Ctx("SELFTEST", "quick", 0, ctx.repo); c.work = ctx.work
    v, _ = traces.validate(c, "Trace_Queries", [trace], {"sqrt": [], "ent": []}, tag="st")
    return v[1]
report("4a. recorded query trace accepted", qv(q)[0] == "accept")
q2 = copy.deepcopy(q); q2["ev"][1]["r"] = common.fx(o.get_kappa() + 1e-6)
v = qv(q2); report("4b. kappa reply perturbed by 1e-6 -> rejected at event 2", v[0] == "reject" and v[1] == 2, str(v))

# 5
env = dict(os.environ); env["LOCALCIDER_VERIF_FORCE_OFF"] = "1"
p = subprocess.run([sys.executable, "-c", "import os,sys; sys.path.insert(0,%r); sys.path.insert(0,%r); os.environ.pop('LOCALCIDER_VERIF',None);\nfrom localcider.backend import wang_landau as w; print(w._VERIF_ON)" % (V, ctx.repo)], stdout=subprocess.PIPE, stderr=subprocess.DEVNULL, text=True, env={k: v for k, v in os.environ.items() if k != "LOCALCIDER_VERIF"})
report("5. guard off: the hook is inert (_VERIF_ON False)", p.stdout.strip().endswith("False"))

# 6
for mod, cfgf, consts, inv, spec in [("MC_Object", "cov_obj.cfg", c15.obj_constants(True), ["HistoryIndependent"], "Spec")]:
    cfg = c15.write_obj_cfg(os.path.join(ctx.work, cfgf), consts, spec, inv, [])
    res = tlc.run_tlc(mod, cfg, ctx.work, coverage=True, tag="cov")
    acts = {a: n for a, n in res.coverage.items() if a[0].isupper()}
    zero = [a for a, n in acts.items() if n == 0]
    report("6. coverage %s: %d actions, none with zero count" % (mod, len(acts)), acts and not zero, str(zero))
cfg = tlc.write_cfg(os.path.join(ctx.work, "cov_wl.cfg"), constants=dict({"MaxDepth": 14}, **c18.WLARITH), constraints=["Depth"], invariants=["GIncrement"])
res = tlc.run_tlc("MC_WL", cfg, ctx.work, coverage=True, tag="covwl")
# the step disjunct of WLNext is anonymous (an existential over the proposal and the decision): it is taken when more states are
# generated than the flat checks alone produce
flat = res.coverage.get("FlatCheck", 0)
report("6. coverage MC_WL: flat checks taken (%d) and steps taken (%d states generated)" % (flat, res.generated), flat > 0 and res.generated > 2 * flat, str(res.coverage))
import shutil; shutil.rmtree(ctx.work, ignore_errors=True)
print("SELFTEST", "PASSED" if ok else "FAILED")
sys.exit(0 if ok else 1)
