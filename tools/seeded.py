#!/venv/bin/python
"""Seeded-defect bookkeeping.
  seeded.py collect            copy sub-agent outputs /tmp/wt/CXX/_out/mK -> /verif/seeded/CXX-mK
  seeded.py confirm [ids..]    confirm in a scratch worktree: demo fails with patch, passes without, suite unchanged
  seeded.py run [ids..] [--tier T] [--prop CXX]   run the property's check against a scratch worktree with the patch
"""
import glob, json, os, shutil, subprocess, sys, time
V = "/verif"
S = os.path.join(V, "seeded")
SCR = "/tmp/seeded_scratch"
PY = "/venv/bin/python"

def sh(cmd, **kw):
    return subprocess.run(cmd, shell=True, stdout=subprocess.PIPE, stderr=subprocess.STDOUT, text=True, **kw)

def worktree(tag):
    d = os.path.join(SCR, tag)
    sh("git -C /repo worktree remove --force %s" % d)
    shutil.rmtree(d, ignore_errors=True)
    os.makedirs(SCR, exist_ok=True)
    r = sh("git -C /repo worktree add -q --detach %s HEAD" % d)
    assert r.returncode == 0, r.stdout
    return d

def drop(d):
    sh("git -C /repo worktree remove --force %s" % d)
    shutil.rmtree(d, ignore_errors=True)
    sh("git -C /repo worktree prune")

def ids(args):
    all_ = sorted(os.path.basename(p) for p in glob.glob(os.path.join(S, "C*-m*")))
    sel = [a for a in args if not a.startswith("--")]
    return [i for i in all_ if not sel or i in sel or i.split("-")[0] in sel]

def collect():
    for out in sorted(glob.glob("/tmp/wt/C*/_out/m*") + glob.glob("/tmp/wt2/C*/_out/m*") + glob.glob("/tmp/wt3/C*/_out/m*") + glob.glob("/tmp/wt6/C*/_out/m*")):
        pid = out.split("/")[3]
        k = os.path.basename(out)
        dst = os.path.join(S, "%s-%s" % (pid, k))
        if os.path.exists(dst):
            continue
        if not all(os.path.exists(os.path.join(out, f)) for f in ("patch.diff", "demo.py", "meta.json")):
            print("incomplete", out); continue
        shutil.copytree(out, dst)
        print("collected", dst)
    for out in sorted(glob.glob("/tmp/wt4/A*/_out/C*-m*") + glob.glob("/tmp/wt5/R*/_out/C*-m*")):        # rounds 4, 5: several properties per agent
        dst = os.path.join(S, os.path.basename(out))
        if os.path.exists(dst):
            continue
        if not all(os.path.exists(os.path.join(out, f)) for f in ("patch.diff", "demo.py", "meta.json")):
            print("incomplete", out); continue
        shutil.copytree(out, dst)
        print("collected", dst)

def confirm(sel):
    for i in ids(sel):
        d = os.path.join(S, i)
        meta = json.load(open(os.path.join(d, "meta.json")))
        if meta.get("confirmed"):
            continue
        wt = worktree("confirm-" + i)
        try:
            env = dict(os.environ, PYTHONPATH=wt, MPLBACKEND="Agg", PYTHONDONTWRITEBYTECODE="1")
            clean = sh("%s %s/demo.py" % (PY, d), env=env, cwd=wt, timeout=1800)
            ap = sh("git -C %s apply %s/patch.diff" % (wt, d))
            if ap.returncode:
                print(i, "PATCH DOES NOT APPLY", ap.stdout[-300:]); continue
            bad = sh("%s %s/demo.py" % (PY, d), env=env, cwd=wt, timeout=1800)
            suite = sh("%s -m pytest -q -p no:cacheprovider 2>&1 | tail -1" % PY, cwd=wt, env=env, timeout=1800)
            ok = clean.returncode == 0 and bad.returncode == 1 and "42 passed" in suite.stdout and "10 failed" in suite.stdout
            meta["confirmed"] = bool(ok)
            meta["confirmation"] = {"demo_clean_exit": clean.returncode, "demo_patched_exit": bad.returncode,
                                    "suite_patched": suite.stdout.strip()[-80:],
                                    "ran": "scratch worktree of /repo HEAD: demo.py clean, git apply patch.diff, demo.py, pytest"}
            json.dump(meta, open(os.path.join(d, "meta.json"), "w"), indent=1)
            print(i, "confirmed" if ok else "NOT CONFIRMED", meta["confirmation"])
        finally:
            drop(wt)

def run(sel, tier, prop=None):
    resf = os.environ.get("SEEDED_RESULTS", os.path.join(S, "RESULTS.json"))      # a second stream writes elsewhere (merged later)
    results = json.load(open(resf)) if os.path.exists(resf) else {}
    for i in ids(sel):
        d = os.path.join(S, i)
        pid = prop or i.split("-")[0]
        wt = worktree("run-" + i)
        try:
            ap = sh("git -C %s apply %s/patch.diff" % (wt, d))
            if ap.returncode:
                print(i, "PATCH DOES NOT APPLY"); continue
            t0 = time.time()
            # evidence of the real tree must not be overwritten by mutant runs: save and restore
            evf = os.path.join(V, "evidence", pid + ".json")
            keep = open(evf).read() if os.path.exists(evf) else None
            r = sh("./check %s --tier %s --repo %s" % (pid, tier, wt), cwd=V, timeout=7200)
            if keep is not None:
                open(evf, "w").write(keep)
            shutil.rmtree(os.path.join(V, "replays", pid), ignore_errors=True)
            clauses = sorted({l.split("clause=")[1].strip() for l in r.stdout.splitlines() if l.startswith("VIOLATION") and "clause=" in l})
            results.setdefault(i, {})["%s/%s" % (pid, tier)] = {"exit": r.returncode, "clauses": clauses[:8], "wall_s": round(time.time() - t0, 1)}
            print(i, pid, tier, "exit", r.returncode, clauses[:5], "%.0fs" % (time.time() - t0))
            if r.returncode not in (0, 1):
                print(r.stdout[-1500:])
        finally:
            drop(wt)
        json.dump(results, open(resf, "w"), indent=1, sort_keys=True)

if __name__ == "__main__":
    cmd = sys.argv[1]
    args = sys.argv[2:]
    tier = "quick"
    prop = None
    if "--tier" in args:
        tier = args[args.index("--tier") + 1]; args = [a for a in args if a not in ("--tier", tier)]
    if "--prop" in args:
        prop = args[args.index("--prop") + 1]; args = [a for a in args if a not in ("--prop", prop)]
    if cmd == "collect": collect()
    elif cmd == "confirm": confirm(args)
    elif cmd == "run": run(args, tier, prop)


# ---------------------------------------------------------------------------------------------
# benign refactorings (false-alarm test): seeded.py benign-collect | benign-run [ids]
AREA_PROPS = {"B1": ["C01", "C02", "C03", "C05", "C06", "C07", "C15", "C16", "C17", "C18"],
              "B2": ["C04", "C08", "C09", "C10", "C15", "C19", "C13"],
              "B3": ["C15", "C16", "C17", "C18", "C20", "C02"],
              "B4": ["C11", "C12", "C13", "C14", "C15", "C04"],
              "B5": ["C18"],
              "B6": ["C19"],
              "B7": ["C03", "C09", "C10", "C12", "C15", "C01"],
              "B8": ["C02", "C04", "C07", "C10", "C05", "C15", "C01"],
              "B9": ["C13", "C14", "C11", "C12", "C20", "C15"],
              "B10": ["C18", "C17", "C08", "C19", "C15"]}


def benign_collect():
    for out in sorted(glob.glob("/tmp/wtb/B*/_out/b*") + glob.glob("/tmp/wtb2/B*/_out/b*")):
        area = out.split("/")[3]
        dst = os.path.join(S, "benign-%s-%s" % (area, os.path.basename(out)))
        own = "check.py" if os.path.exists(os.path.join(out, "check.py")) else "equiv.py"
        if os.path.exists(dst) or not all(os.path.exists(os.path.join(out, f)) for f in ("patch.diff", own, "meta.json")):
            continue
        shutil.copytree(out, dst)
        print("collected", dst)


def benign_run(sel, tier="quick"):
    resf = os.path.join(S, "BENIGN_RESULTS.json")
    results = json.load(open(resf)) if os.path.exists(resf) else {}
    all_ = sorted(os.path.basename(p) for p in glob.glob(os.path.join(S, "benign-*")))
    for i in [x for x in all_ if not sel or x in sel]:
        d = os.path.join(S, i)
        area = i.split("-")[1]
        wt = worktree("benign-" + i)
        try:
            if sh("git -C %s apply %s/patch.diff" % (wt, d)).returncode:
                print(i, "PATCH DOES NOT APPLY"); continue
            env = dict(os.environ, PYTHONPATH=wt, MPLBACKEND="Agg", PYTHONDONTWRITEBYTECODE="1")
            own = sh("%s %s/%s" % (PY, d, "check.py" if os.path.exists(os.path.join(d, "check.py")) else "equiv.py"), env=env, cwd=wt, timeout=3600)
            suite = sh("%s -m pytest -q -p no:cacheprovider 2>&1 | tail -1" % PY, cwd=wt, env=env, timeout=1800)
            results.setdefault(i, {})["own_check_exit"] = own.returncode
            results[i]["suite"] = suite.stdout.strip()[-60:]
            for pid in AREA_PROPS.get(area, []):
                evf = os.path.join(V, "evidence", pid + ".json")
                keep = open(evf).read() if os.path.exists(evf) else None
                t0 = time.time()
                r = sh("./check %s --tier %s --repo %s" % (pid, tier, wt), cwd=V, timeout=7200)
                if keep is not None:
                    open(evf, "w").write(keep)
                shutil.rmtree(os.path.join(V, "replays", pid), ignore_errors=True)
                clauses = sorted({l.split("clause=")[1].strip() for l in r.stdout.splitlines() if l.startswith("VIOLATION") and "clause=" in l})
                notes = [l for l in r.stdout.splitlines() if "MACHINERY" in l][:2]
                results[i][pid] = {"exit": r.returncode, "clauses": clauses[:6], "notes": notes, "wall_s": round(time.time() - t0, 1)}
                print(i, pid, "exit", r.returncode, clauses[:4], notes[:1], flush=True)
                json.dump(results, open(resf, "w"), indent=1, sort_keys=True)
        finally:
            drop(wt)


if __name__ == "__main__" and sys.argv[1] == "benign-collect":
    benign_collect()
if __name__ == "__main__" and sys.argv[1] == "benign-run":
    benign_run([a for a in sys.argv[2:] if not a.startswith("--")])
