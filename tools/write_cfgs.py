#!/venv/bin/python
"""Write spec/cfg/*.cfg: one hand-runnable TLC configuration (quick-tier constants) per bounded instance, so that the
specification can be model-checked without the Python harness:   cd spec && tlc -config cfg/MC_Patterning.cfg MC_Patterning.tla
(The checks write their own configurations into .work/ at run time; these files are documentation kept in step by this tool.)"""
import os, sys
sys.path.insert(0, os.path.dirname(os.path.dirname(os.path.abspath(__file__))))
from harness import tlc
from harness.drivers import c15
D = os.path.join(tlc.SPEC_DIR, "cfg")
os.makedirs(D, exist_ok=True)
W = lambda name, **kw: tlc.write_cfg(os.path.join(D, name + ".cfg"), **kw)
W("MC_Patterning", constants={"MaxLen": 8, "EmitRecords": False, "CheckDef": True},
  invariants=["DeltaIsDefinition", "DeltaZeroShort", "LongChainFormSame", "SentinelIffNoVariance", "KappaWellDefined", "KappaRangeOrK1",
              "ReverseInvariant", "InvertInvariant", "DMaxSymmetric", "FamilyIsArrangement", "SCDZeroFewCharges"])
W("MC_DeltaMax", constants={"MaxN": 12, "Slab": True}, invariants=["DMaxSymmetric", "PermAttains", "RegimePartition", "FamilyMirror", "ZeroWhenTrivial", "TieAgreesNoNeutral"])
W("MC_Composition", constants={"Alphabet": {"K", "D", "P", "W", "H"}, "MaxLen": 4}, invariants=["SumIsCountForm", "PermutationInvariant", "Identities", "FractionsSumToOne"])
W("MC_Recode", constants={"Alphabet": {"K", "E", "P", "G", "S"}, "MaxLen": 5}, invariants=["SwapLaw", "ComplementLaw", "OmegaIsKappaX", "KappaIsKappaX", "OmegaStringMarks", "TwoLetter"])
W("MC_Region", constants={"MaxN": 60}, invariants=["CodeIsDoc", "Total", "Sign"])
W("MC_PI", spec="FairSpec", constants={"Widths": {1, 2, 16, 48}}, invariants=["NeverRaises", "ResultInZone", "WidensOnlyWhenOutside", "FewWidenings"], properties=["Terminates"])
W("MC_Profiles", constants={"Alphabet": {"K", "E", "G", "P", "Y", "L"}, "MaxLen": 4, "EmitRecords": False}, invariants=["FlanksAgree", "CodeIsDoc", "WholeWindow", "DeltaFromProfiles"])
W("MC_Complexity", constants={"MaxN": 40, "MaxWin": 7}, invariants=["Geometry", "Values", "Homopolymer"])
W("MC_Alphabets", invariants=["ExactlySizeGroups", "Covers", "Disjoint", "CanonImplements", "Idempotent", "Homomorphism", "RepresentativesCount"])
W("MC_SeqInput", constants={"MaxLen": 4}, invariants=["NormalisedIsClean", "AcceptedIsWord", "Idempotent", "RejectsForeign", "BlankRejected", "WhitespaceIrrelevant"])
W("MC_Parser", constants={"MaxLen": 4}, invariants=["MachineIsFunction", "MachineIsDoc", "ParsedIsResidues"], properties=["RejectIsSticky", "HeaderOnce"])
for mv, ml, mf in (("swapRes", 5, 0), ("full_shuffle", 4, 5), ("swapRandChargeRes", 4, 5), ("permute_block_swap", 5, 1), ("permute_cluster_charges", 5, 1)):
    W("MC_Moves_" + mv, constants={"Alphabet": {"K", "E", "G"}, "MaxLen": ml, "MoveName": mv, "MaxFrozen": mf},
      invariants=["OnlyRearranges", "KeepsFrozen", "SwapsSucceed", "UsesWholeTape", "SelfOnlyWhenNothingToSwap", "CarriedDMaxValid"])
W("MC_WL", constants={"MaxDepth": 16, "Pow2N": "<- Pow2NRec", "SumOver": "<- SumOverRec"}, constraints=["Depth"], invariants=["GIncrement", "StopRule", "KBounded"],
  properties=["NeverLeavesWindow", "CountRule", "FlatRule", "NoEarlyReset", "ScheduleRule"])
W("MC_Render", constants={"MaxLen": 6}, invariants=["StripRecovers", "SpacesBreaksExactly", "ColourIsPalette", "NothingAfterLast"])
c15.write_obj_cfg(os.path.join(D, "MC_Object.cfg"), c15.obj_constants(True), "Spec",
                  ["HistoryIndependent", "CacheSound", "SitesValid", "NoRepeats", "PaletteTotal"], ["ReadOnlyFrame", "CrossObjectFrame", "SeqImmutable", "SitesOnlyGrowOrClear", "SetSemantics", "ClearEmpties", "PaletteAtomic"])
c15.write_obj_cfg(os.path.join(D, "MC_Object_LegacyCache.cfg"), c15.obj_constants(True, legacy=True), "Spec", ["HistoryIndependent"], [])
print(sorted(os.listdir(D)))
