------------------------------- MODULE Region -------------------------------
(***************************************************************************)
(* The diagram-of-states region (Das & Pappu) over the composition         *)
(* (p, n, N): as documented and as the implementation's cascade.  Kept in  *)
(* a module of its own (Integers only) so that both TLC (via Composition)  *)
(* and TLAPS (via Proofs) use the same text.                               *)
(***************************************************************************)
EXTENDS Integers
RAbsInt(x) == IF x < 0 THEN -x ELSE x
(***************************************************************************)
(* Diagram-of-states region over (p, n, N), thresholds cross-multiplied:   *)
(* FCR < 1/4 <=> 4(p+n) < N ;  FCR <= 7/20 <=> 20(p+n) <= 7N ;             *)
(* |NCPR| < 7/20 <=> 20|p-n| < 7N ;  f+ > 7/20 <=> 20p > 7N.               *)
(***************************************************************************)
RegionDoc(p, n, N) ==
  IF 4 * (p + n) < N THEN 1
  ELSE IF 20 * (p + n) <= 7 * N THEN 2
  ELSE IF 20 * RAbsInt(p - n) < 7 * N THEN 3
  ELSE IF p > n THEN 5
  ELSE IF n > p THEN 4
  ELSE 0                                  \* "otherwise" with p = n: unreachable (proved)
\* the cascade of the implementation; 6 and 7 stand for its two defensive raises
RegionCode(p, n, N) ==
  IF 4 * (p + n) < N THEN 1
  ELSE IF 4 * (p + n) >= N /\ 20 * (p + n) <= 7 * N THEN 2
  ELSE IF 20 * (p + n) > 7 * N /\ 20 * RAbsInt(p - n) < 7 * N THEN 3
  ELSE IF 20 * p > 7 * N THEN (IF 20 * n > 7 * N THEN 6 ELSE 5)
  ELSE IF 20 * n > 7 * N THEN 4
  ELSE 7
=============================================================================
