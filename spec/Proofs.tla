------------------------------- MODULE Proofs -------------------------------
(***************************************************************************)
(* Unbounded lemmas discharged by TLAPS (linear integer arithmetic).       *)
(* C08: for every composition the coded region cascade is total (neither   *)
(* defensive raise is reachable), equals the documented thresholds, and    *)
(* regions 4 / 5 have the stated sign.                                     *)
(***************************************************************************)
EXTENDS Region, TLAPS

THEOREM RegionTotal ==
  ASSUME NEW p \in Nat, NEW n \in Nat, NEW N \in Nat, N > 0, p + n <= N
  PROVE  /\ RegionCode(p, n, N) \in 1..5
         /\ RegionCode(p, n, N) = RegionDoc(p, n, N)
BY DEF RegionCode, RegionDoc, RAbsInt

THEOREM RegionSign ==
  ASSUME NEW p \in Nat, NEW n \in Nat, NEW N \in Nat, N > 0, p + n <= N
  PROVE  /\ (RegionCode(p, n, N) = 5 => p > n)
         /\ (RegionCode(p, n, N) = 4 => n > p)
BY DEF RegionCode, RAbsInt
=============================================================================
