-------------------------------- MODULE MC_PI --------------------------------
(***************************************************************************)
(* C09 (M): the isoelectric-point search run against every monotone        *)
(* three-zone sign oracle: positive below a, within the threshold on       *)
(* [a, a+w], negative above, with a on a 1/16 pH grid over [-2, 18] and    *)
(* zone widths w in Widths (sixteenths).  The search never raises, returns *)
(* a pH inside the zone, widens the bracket only when the zone lies        *)
(* outside [0, 14],.        *)
(***************************************************************************)
EXTENDS Titration, TLC
CONSTANTS Widths
VARIABLES a16, w16, s
G == PIUnit \div 16
Sgn(x) == IF x < a16 * G THEN 1 ELSE IF x > (a16 + w16) * G THEN -1 ELSE 0
Init == a16 \in (-32)..(18 * 16) /\ w16 \in Widths /\ s = PIInit
Next == s.st = "run" /\ s' = PIStep(s, Sgn) /\ UNCHANGED <<a16, w16>>
Spec == Init /\ [][Next]_<<a16, w16, s>>
FairSpec == Spec /\ WF_<<a16, w16, s>>(Next)
NeverRaises == s.st # "raised"
ResultInZone == s.st = "done" => Sgn(s.res) = 0
\* beyond 26 halvings (only after several widenings) the integer midpoint is rounded down, as floats round too
WidensOnlyWhenOutside == s.ec > 0 => (a16 * G >= 14 * PIUnit \/ (a16 + w16) * G <= 0)
FewWidenings == s.ec <= 5
Terminates == <>(s.st = "done")
=============================================================================
