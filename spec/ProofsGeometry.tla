--------------------------- MODULE ProofsGeometry ---------------------------
(***************************************************************************)
(* Unbounded lemmas about window geometry, discharged by TLAPS.            *)
(* C11: K = floor((N-w)/s)+1 windows fit and K+1 do not.                   *)
(* C10: floor((w-1)/2) leading + ceil((w-1)/2) trailing = w-1 positions;   *)
(* the implementation's flank arithmetic is the documented placement.      *)
(***************************************************************************)
EXTENDS Geometry, TLAPS

THEOREM WindowsFit ==
  ASSUME NEW N \in Nat, NEW w \in Nat, NEW s \in Nat, 1 <= w, w <= N, s >= 1
  PROVE  LET K == NumWindows(N, w, s) IN
         /\ K \in Nat /\ K >= 1
         /\ WindowStart(K, s) + w - 1 <= N            \* the last window ends inside the sequence
         /\ WindowStart(K + 1, s) + w - 1 > N         \* one more window would not
<1> DEFINE d == N - w
<1> DEFINE q == d \div s
<1>1. d \in Nat /\ s \in Nat /\ s > 0 OBVIOUS
<1>2. q \in Nat /\ q * s <= d /\ d < (q + 1) * s
  BY <1>1, Z3
<1> QED BY <1>1, <1>2, Z3 DEF NumWindows, WindowStart

THEOREM FlanksAddUp ==
  ASSUME NEW w \in Nat, w >= 1
  PROVE  /\ LeadDoc(w) + TrailDoc(w) = w - 1
         /\ TrailDoc(w) >= LeadDoc(w) /\ TrailDoc(w) <= LeadDoc(w) + 1
         /\ LeadDoc(w) \in Nat
BY DEF LeadDoc, TrailDoc

THEOREM CodePlacementIsDocumented ==
  ASSUME NEW N \in Nat, NEW w \in Nat, 1 <= w, w <= N
  PROVE  FlankStartCode(N, w) = LeadDoc(w)
<1>a. (w \div 2) \in Nat /\ (w = 2 * (w \div 2) \/ w = 2 * (w \div 2) + 1) BY Z3
<1>0. PICK h \in Nat : w = 2 * h \/ w = 2 * h + 1 BY <1>a
<1>2. CASE w = 2 * h
  <2>1. h >= 1 BY <1>2
  <2>2. (2 * h - 1) \div 2 = h - 1 BY <2>1, Z3
  <2>3. (2 * h) \div 2 = h BY Z3
  <2>4. 2 * h + (N - w + 1) # N BY <1>2
  <2> QED BY <1>2, <2>2, <2>3, <2>4 DEF FlankStartCode, LeadDoc
<1>3. CASE w = 2 * h + 1
  <2>1. (2 * h) \div 2 = h BY Z3
  <2>2. (2 * h + 1) \div 2 = h BY Z3
  <2>3. 2 * h + (N - w + 1) = N BY <1>3
  <2> QED BY <1>3, <2>1, <2>2, <2>3 DEF FlankStartCode, LeadDoc
<1> QED BY <1>0, <1>2, <1>3

LEMMA DivFacts == ASSUME NEW a \in Nat, NEW b \in Nat, b >= 1
                  PROVE a \div b \in Nat /\ (a \div b) * b <= a /\ a < (a \div b + 1) * b
BY Z3
LEMMA DivUnique == ASSUME NEW a \in Nat, NEW b \in Nat, NEW q \in Nat, b >= 1, q * b <= a, a < (q + 1) * b
                   PROVE a \div b = q
<1> DEFINE d == a \div b
<1>1. d \in Nat /\ d * b <= a /\ a < (d + 1) * b BY DivFacts
<1>2. CASE d < q
  <2>1. d + 1 <= q BY <1>1, <1>2
  <2>2. (d + 1) * b <= q * b BY <2>1, <1>1, Z3
  <2> QED BY <1>1, <2>2
<1>3. CASE q < d
  <2>1. q + 1 <= d BY <1>1, <1>3
  <2>2. (q + 1) * b <= d * b BY <2>1, <1>1, Z3
  <2> QED BY <1>1, <2>2
<1> QED BY <1>1, <1>2, <1>3

\* C11: the position row the implementation builds for K windows has exactly K entries, the first at least 1, the last at
\* most N, consecutive entries PosSpacing >= 1 apart (strictly increasing positions within 1..N)
THEOREM PositionRow ==
  ASSUME NEW N \in Nat, NEW K \in Nat, 1 <= K, K <= N
  PROVE  /\ PosSpacing(N, K) \in Nat /\ PosSpacing(N, K) >= 1
         /\ PosCount(N, K) = K
         /\ PosStart(N, K) >= 1
         /\ PosStart(N, K) + (K - 1) * PosSpacing(N, K) <= N
<1>1. PICK sp \in Nat : sp = N \div K /\ sp * K <= N /\ N < (sp + 1) * K BY DivFacts
<1>2. PICK m \in Nat : m = sp * K /\ m = K * sp /\ (sp + 1) * K = m + K /\ (K + 1) * sp = m + sp /\ (K - 1) * sp = m - sp
  <2>1. sp * K \in Nat BY Z3
  <2>2. sp * K = K * sp /\ (sp + 1) * K = sp * K + K /\ (K + 1) * sp = sp * K + sp /\ (K - 1) * sp = sp * K - sp BY Z3
  <2> QED BY <2>1, <2>2
<1>3. sp >= 1
  <2>1. CASE sp = 0 BY <2>1, <1>1, <1>2
  <2> QED BY <2>1
<1>4a. N - m \in Nat /\ N - m < K BY <1>1, <1>2
<1>4. PICK rem \in Nat : rem = N - m /\ rem < K BY <1>4a
<1>5. PICK fs \in Nat, fe \in Nat :
        /\ fs = (IF rem % 2 = 0 THEN rem \div 2 ELSE (rem - 1) \div 2)
        /\ fe = (IF rem % 2 = 0 THEN rem \div 2 ELSE (rem + 1) \div 2)
        /\ fs + fe = rem
  <2>1. (IF rem % 2 = 0 THEN rem \div 2 ELSE (rem - 1) \div 2) \in Nat BY Z3
  <2>2. (IF rem % 2 = 0 THEN rem \div 2 ELSE (rem + 1) \div 2) \in Nat BY Z3
  <2>3. (IF rem % 2 = 0 THEN rem \div 2 ELSE (rem - 1) \div 2) + (IF rem % 2 = 0 THEN rem \div 2 ELSE (rem + 1) \div 2) = rem BY Z3
  <2> QED BY <2>1, <2>2, <2>3
<1>6. PICK half \in Nat : half = sp \div 2 /\ half + 1 <= sp BY <1>3, Z3
<1>7. PosSpacing(N, K) = sp /\ PosRem(N, K) = rem BY <1>1, <1>2, <1>4 DEF PosSpacing, PosRem
<1>8. PosFrontSkip(N, K) = fs /\ PosEndSkip(N, K) = fe BY <1>5, <1>7 DEF PosFrontSkip, PosEndSkip
<1>9. PosStart(N, K) = fs + 1 + half /\ PosStop(N, K) = (N + 1) - fe + half BY <1>6, <1>7, <1>8 DEF PosStart, PosStop
<1>10. PosStop(N, K) - PosStart(N, K) = m /\ m >= 1
  <2>1. m >= 1 BY <1>4a
  <2> QED BY <2>1, <1>9, <1>4, <1>5
<1>11. (m + sp - 1) \div sp = K
  <2>1. m + sp - 1 \in Nat BY <1>3
  <2>2. K * sp <= m + sp - 1 BY <1>2, <1>3
  <2>3. m + sp - 1 < (K + 1) * sp BY <1>2, <1>3
  <2> QED BY <2>1, <2>2, <2>3, <1>3, DivUnique
<1>12. PosCount(N, K) = K
  <2>1. ~(PosStop(N, K) <= PosStart(N, K)) BY <1>10, <1>9
  <2>2. PosCount(N, K) = (PosStop(N, K) - PosStart(N, K) + PosSpacing(N, K) - 1) \div PosSpacing(N, K) BY <2>1 DEF PosCount
  <2> QED BY <2>2, <1>10, <1>7, <1>11
<1>13. PosStart(N, K) + (K - 1) * PosSpacing(N, K) <= N
  BY <1>9, <1>7, <1>2, <1>4, <1>5, <1>6
<1> QED BY <1>3, <1>7, <1>9, <1>12, <1>13
=============================================================================
