------------------------------ MODULE ProofsWL ------------------------------
(***************************************************************************)
(* C18, for every configuration, number of bins and length of run (TLAPS): *)
(* the bookkeeping invariant of the Wang-Landau machine                    *)
(*     g[b] - gprev[b] = H[b] * Unit(k)   for every bin b                  *)
(* ("per-iteration g increments equal ln f times the histogram of that     *)
(* iteration") and the stop rule (phase "done" only when f is at most the  *)
(* threshold) are inductive over WLStep and FlatCheck, and a step never    *)
(* moves the walk from inside the requested window to outside it.          *)
(* Pow2N is WLCore's parameter; only its integrality is used.              *)
(***************************************************************************)
EXTENDS WLCore, TLAPS

ASSUME PowInt == \A n \in Int : Pow2N(n) \in Int

TypeOK == /\ g \in [Bins -> Int] /\ H \in [Bins -> Int] /\ gprev \in [Bins -> Int]
          /\ bin \in Bins /\ k \in Nat /\ cfg.kmax \in Int /\ cfg.nb \in Int
          /\ phase \in {"step", "flat", "done"}
Inv == TypeOK /\ GIncrement /\ StopRule

LEMMA UnitInt == ASSUME TypeOK PROVE Unit(k) \in Int /\ Unit(k + 1) \in Int
BY PowInt DEF TypeOK, Unit

LEMMA InitInv == ASSUME NEW c, NEW b0, WLInit(c, b0), c.nb \in Int, c.kmax \in Int, b0 \in 0..(c.nb - 1) PROVE Inv
<1>1. Unit(k) \in Int BY PowInt DEF WLInit, Unit
<1> QED BY <1>1 DEF WLInit, Inv, TypeOK, GIncrement, StopRule, Bins

LEMMA StepInv == ASSUME Inv, NEW nbin \in Bins, NEW acc \in BOOLEAN, WLStep(nbin, acc) PROVE Inv'
<1>1. cfg' = cfg /\ k' = k /\ gprev' = gprev BY DEF WLStep
<1>2. Unit(k)' = Unit(k) /\ Bins' = Bins BY <1>1 DEF Unit, Bins
<1>3. bin' \in Bins BY DEF WLStep, Inv, TypeOK
<1>4. phase' \in {"step", "flat"} BY DEF WLStep
<1>5. Unit(k) \in Int BY UnitInt DEF Inv
<1>6. CASE ~Inside(nbin)
  <2>1. g' = g /\ H' = H BY <1>6 DEF WLStep
  <2> QED BY <1>1, <1>2, <1>3, <1>4, <2>1 DEF Inv, TypeOK, GIncrement, StopRule
<1>7. CASE Inside(nbin)
  <2>1. g' = [g EXCEPT ![bin'] = @ + Unit(k)] /\ H' = [H EXCEPT ![bin'] = @ + 1] BY <1>7 DEF WLStep
  <2>2. g' \in [Bins -> Int] /\ H' \in [Bins -> Int] BY <2>1, <1>3, <1>5 DEF Inv, TypeOK
  <2>3. \A b \in Bins : g'[b] - gprev[b] = H'[b] * Unit(k)
    <3> TAKE b \in Bins
    <3>1. CASE b = bin'
      <4>1. g'[b] = g[b] + Unit(k) /\ H'[b] = H[b] + 1 BY <2>1, <3>1, <1>3 DEF Inv, TypeOK
      <4>2. g[b] - gprev[b] = H[b] * Unit(k) BY DEF Inv, GIncrement
      <4>3. g[b] \in Int /\ gprev[b] \in Int /\ H[b] \in Int BY DEF Inv, TypeOK
      <4> DEFINE u == Unit(k)
      <4> DEFINE h == H[b]
      <4>4. u \in Int /\ h \in Int BY <4>3, <1>5
      <4>5. (h + 1) * u = h * u + u
        <5> HIDE DEF u, h
        <5> QED BY <4>4, Z3
      <4> HIDE DEF u, h
      <4>6. g'[b] = g[b] + u /\ H'[b] = h + 1 /\ g[b] - gprev[b] = h * u BY <4>1, <4>2 DEF u, h
      <4>7. h * u \in Int BY <4>4, Z3
      <4>8. g'[b] - gprev[b] = H'[b] * u BY <4>3, <4>4, <4>5, <4>6, <4>7
      <4> QED BY <4>8 DEF u
    <3>2. CASE b # bin'
      <4>1. g'[b] = g[b] /\ H'[b] = H[b] BY <2>1, <3>2 DEF Inv, TypeOK
      <4> QED BY <4>1 DEF Inv, GIncrement
    <3> QED BY <3>1, <3>2
  <2> QED BY <1>1, <1>2, <1>3, <1>4, <2>2, <2>3 DEF Inv, TypeOK, GIncrement, StopRule
<1> QED BY <1>6, <1>7

LEMMA FlatInv == ASSUME Inv, FlatCheck PROVE Inv'
<1>1. cfg' = cfg /\ bin' = bin /\ g' = g BY DEF FlatCheck
<1>2. Bins' = Bins BY <1>1 DEF Bins
<1>3. CASE AllFlat
  <2>1. k' = k + 1 /\ H' = Zeros /\ gprev' = g BY <1>3 DEF FlatCheck
  <2>2. phase' = IF Pow2N(cfg.kmax - (k + 1)) > cfg.conv THEN "step" ELSE "done" BY <1>3 DEF FlatCheck
  <2>3. Unit(k)' = Pow2N(cfg.kmax - (k + 1)) BY <1>1, <2>1 DEF Unit
  <2>4. \A b \in Bins : g'[b] - gprev'[b] = H'[b] * Unit(k)'
    <3> TAKE b \in Bins
    <3>1. g[b] \in Int BY DEF Inv, TypeOK
    <3>2. H'[b] = 0 BY <2>1 DEF Zeros
    <3>3. Unit(k)' \in Int BY <2>3, PowInt DEF Inv, TypeOK
    <3> QED BY <1>1, <2>1, <3>1, <3>2, <3>3
  <2>5. H' \in [Bins -> Int] BY <2>1 DEF Zeros
  <2>6. (phase' = "done") => ~(Unit(k)' > cfg'.conv) BY <2>2, <2>3, <1>1
  <2> QED BY <1>1, <1>2, <2>1, <2>2, <2>4, <2>5, <2>6 DEF Inv, TypeOK, GIncrement, StopRule, Running
<1>4. CASE ~AllFlat
  <2>1. k' = k /\ H' = H /\ gprev' = gprev /\ phase' = "step" BY <1>4 DEF FlatCheck
  <2>2. Unit(k)' = Unit(k) BY <1>1, <2>1 DEF Unit
  <2> QED BY <1>1, <1>2, <2>1, <2>2 DEF Inv, TypeOK, GIncrement, StopRule
<1> QED BY <1>3, <1>4

THEOREM InvInductive == ASSUME Inv, WLNext PROVE Inv'
BY StepInv, FlatInv DEF WLNext

\* a step never carries the walk from inside the requested window to outside it
THEOREM StaysInside == ASSUME NEW nbin, NEW acc, WLStep(nbin, acc), Inside(bin) PROVE Inside(bin)'
<1>1. cfg' = cfg BY DEF WLStep
<1>2. bin' = IF acc THEN nbin ELSE bin BY DEF WLStep
<1>3. ~Inside(nbin) => ~acc BY DEF WLStep
<1> QED BY <1>1, <1>2, <1>3 DEF Inside, Window
=============================================================================
