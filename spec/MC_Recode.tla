------------------------------ MODULE MC_Recode ------------------------------
(***************************************************************************)
(* C06 bounded instance: every sequence over a 5-letter alphabet up to      *)
(* MaxLen, with every pair of groups over those letters.  Pattern-level     *)
(* laws; together with InvertInvariant / DMaxSymmetric of MC_Patterning     *)
(* (kappa is unchanged by inverting the pattern) they give the kappa-level  *)
(* laws of the statement.                                                   *)
(***************************************************************************)
EXTENDS Patterning, TLC
CONSTANTS Alphabet, MaxLen
VARIABLE seq
Init == seq = <<>>
Next == Len(seq) < MaxLen /\ \E a \in Alphabet : seq' = Append(seq, a)
Spec == Init /\ [][Next]_seq
Groups == SUBSET Alphabet
\* swapping two disjoint non-empty groups inverts the recoding
SwapLaw == \A g1 \in Groups \ {{}} : \A g2 \in (SUBSET (Alphabet \ g1)) \ {{}} :
             KappaXPattern(seq, g2, g1) = Inv(KappaXPattern(seq, g1, g2))
\* a one-group call and the call with the complementary group are inverse recodings
\* (the complement is taken in the 20 residues; letters outside Alphabet do not occur in seq)
ComplementLaw == \A g \in Groups : KappaXPattern(seq, Residues \ g, {}) = Inv(KappaXPattern(seq, g, {}))
OmegaIsKappaX == OmegaPattern(seq) = KappaXPattern(seq, OmegaGroup, {})
KappaIsKappaX == KappaXPattern(seq, Negative, Positive) = ChargePattern(seq)
OmegaStringMarks == \A i \in 1..Len(seq) : (OmegaString(seq)[i] = "X") = (seq[i] \in OmegaGroup)
\* a one-group recoding has no neutral letter; a two-group one marks exactly the rest neutral
TwoLetter == \A g \in Groups : \A i \in 1..Len(seq) : KappaXPattern(seq, g, {})[i] # 0
=============================================================================
