------------------------------ MODULE MC_Render ------------------------------
(***************************************************************************)
(* C20 (M): rendering as a token sequence.  States: every sequence over    *)
(* three residues up to MaxLen, and one sequence of each length class      *)
(* 1, 9, 10, 11, 49, 50, 51, 100, 101, 151.                                *)
(***************************************************************************)
EXTENDS ObjectFunctions, TLC
CONSTANTS MaxLen
VARIABLE seq
Alphabet == <<"K", "G", "W">>
LengthClasses == {1, 9, 10, 11, 49, 50, 51, 100, 101, 151}
Init == seq = <<>>
Next == \/ Len(seq) < MaxLen /\ \E a \in {"K", "G", "W"} : seq' = Append(seq, a)
        \/ seq = <<>> /\ \E n \in LengthClasses : seq' = [i \in 1..n |-> Alphabet[(i % 3) + 1]]
Spec == Init /\ [][Next]_seq
toks == Render(seq, DefaultPalette)
StripRecovers == StripMarkup(toks) = seq
\* one pass: indices of the residue tokens, then the separators between consecutive residue tokens
Checks ==
  LET tk == toks
      ridx == SelectSeq([k \in 1..Len(tk) |-> k], LAMBDA k : tk[k][1] = "res")
      before(i) == SubSeq(tk, IF i = 1 THEN 1 ELSE ridx[i-1] + 1, ridx[i] - 1)
      has(i, what) == \E j \in 1..Len(before(i)) : before(i)[j] = what
  IN /\ Len(ridx) = Len(seq)
     /\ \A i \in 1..Len(seq) :
          /\ has(i, <<"sp">>) <=> ((i - 1) % 10 = 0)                 \* SpacesExactly
          /\ has(i, <<"br">>) <=> ((i - 1) % 50 = 0)                 \* BreaksExactly
          /\ Len(before(i)) = (IF (i-1) % 10 = 0 THEN 1 ELSE 0) + (IF (i-1) % 50 = 0 THEN 1 ELSE 0)   \* OneSeparatorEach
SpacesBreaksExactly == Checks
ColourIsPalette == \A k \in 1..Len(toks) : toks[k][1] = "res" => toks[k][2] = DefaultPalette[toks[k][3]]
NothingAfterLast == Len(seq) >= 1 => toks[Len(toks)][1] = "res"
=============================================================================
