---------------------------- MODULE MC_LocalCider ----------------------------
EXTENDS LocalCider
MCObj == {1}
MCPoolL == { <<"K","E","S","G","T","E","K","Y">> }
MCSites == { <<3>> }
MCPal == { [r \in Residues |-> "red"] }
MCWL == { [nb |-> 3, rmin |-> 1, rmax |-> 2, nbt |-> 2, nflat |-> 2, kmax |-> 1, fnum |-> 3, fden |-> 10, conv |-> 1] }
=============================================================================
