------------------------------ MODULE Profiles ------------------------------
(***************************************************************************)
(* Sliding-window profiles (C10), reduced alphabets (C12) and complexity   *)
(* profiles (C11).  Small exact rationals are pairs <<num, den>> of TLC    *)
(* integers (windows are short, so everything fits in 32 bits).            *)
(***************************************************************************)
EXTENDS Integers, Sequences, FiniteSets, Residues, Geometry

Q(a, b) == <<a, b>>                       \* the rational a/b, b > 0
QEq(x, y) == x[1] * y[2] = y[1] * x[2]
QZero == <<0, 1>>

CountIn(seq, lo, hi, S) == Cardinality({j \in lo..hi : seq[j] \in S})
RECURSIVE TabWin(_,_,_,_)
TabWin(seq, lo, hi, tab) == IF lo > hi THEN 0 ELSE tab[seq[lo]] + TabWin(seq, lo + 1, hi, tab)

Stats == {"NCPR", "FCR", "sigma", "hydropathy"}
\* statistic of the w-residue window starting at residue i (1-based)
WindowStat(stat, seq, i, w) ==
  LET bp == CountIn(seq, i, i + w - 1, Positive)
      bn == CountIn(seq, i, i + w - 1, Negative) IN
  CASE stat = "NCPR" -> Q(bp - bn, w)
    [] stat = "FCR"  -> Q(bp + bn, w)
    [] stat = "sigma" -> IF bp + bn = 0 THEN QZero ELSE Q((bp - bn) * (bp - bn), w * (bp + bn))
    [] stat = "hydropathy" -> Q(TabWin(seq, i, i + w - 1, KDShift10), 90 * w)
GroupDensity(seq, i, w, grp) == Q(CountIn(seq, i, i + w - 1, grp), w)

\* documented placement: the window starting at residue i is reported at position i + floor((w-1)/2);
\* floor((w-1)/2) leading and ceil((w-1)/2) trailing positions are 0
\* (LeadDoc, TrailDoc, FlankStartCode, FlankEndCode: module Geometry; ProofsGeometry proves FlanksAddUp and
\* CodePlacementIsDocumented for every w <= N)
ProfileDoc(f(_), N, w) ==        \* f(i): value of the window starting at i
  [j \in 1..N |-> IF j - LeadDoc(w) >= 1 /\ j - LeadDoc(w) <= N - w + 1 THEN f(j - LeadDoc(w)) ELSE QZero]
\* the implementation's flank arithmetic
ProfileCode(f(_), N, w) ==
  [j \in 1..N |-> IF j > FlankStartCode(N, w) /\ j <= FlankStartCode(N, w) + (N - w + 1)
                  THEN f(j - FlankStartCode(N, w)) ELSE QZero]
StatProfile(stat, seq, w) == LET f(i) == WindowStat(stat, seq, i, w) IN ProfileDoc(f, Len(seq), w)
GroupProfile(seq, w, grp) == LET f(i) == GroupDensity(seq, i, w, grp) IN ProfileDoc(f, Len(seq), w)

DefaultGroups == << {"E","D"}, {"R","K"}, {"R","K","E","D"}, {"Q","N","S","T","G","H","C"},
                    {"A","L","M","I","V"}, {"F","Y","W"}, {"P"} >>

(***************************************************************************)
(* Reduced alphabets: the documented partitions (Murphy et al. 2000, as    *)
(* listed in the documentation string), written as sets of groups.         *)
(***************************************************************************)
Chars(s) == s       \* groups are written as sets of one-letter strings below
AlphabetSizes == {2, 3, 4, 5, 6, 8, 10, 11, 12, 15, 18, 20}
Partition(size) ==
  CASE size = 2  -> { {"L","V","I","M","C","A","G","S","T","P","F","Y","W"}, {"E","D","N","Q","K","R","H"} }
    [] size = 3  -> { {"L","V","I","M","C","A","G","S","T","P"}, {"F","Y","W"}, {"E","D","N","Q","K","R","H"} }
    [] size = 4  -> { {"L","V","I","M","C"}, {"A","G","S","T","P"}, {"F","Y","W"}, {"E","D","N","Q","K","R","H"} }
    [] size = 5  -> { {"L","V","I","M","C"}, {"A","S","G","T","P"}, {"F","Y","W"}, {"E","D","N","Q"}, {"K","R","H"} }
    [] size = 6  -> { {"L","V","I","M"}, {"A","S","G","T"}, {"P","H","C"}, {"F","Y","W"}, {"E","D","N","Q"}, {"K","R"} }
    [] size = 8  -> { {"L","V","I","M","C"}, {"A","G"}, {"S","T"}, {"P"}, {"F","Y","W"}, {"E","D","N","Q"}, {"K","R"}, {"H"} }
    [] size = 10 -> { {"L","V","I","M"}, {"C"}, {"A"}, {"G"}, {"S","T"}, {"P"}, {"F","Y","W"}, {"E","D","N","Q"}, {"K","R"}, {"H"} }
    [] size = 11 -> { {"L","V","I","M"}, {"C"}, {"A"}, {"G"}, {"S","T"}, {"P"}, {"F","Y","W"}, {"E","D"}, {"N","Q"}, {"K","R"}, {"H"} }
    [] size = 12 -> { {"L","V","I","M"}, {"C"}, {"A"}, {"G"}, {"S","T"}, {"P"}, {"F","Y"}, {"W"}, {"E","Q"}, {"D","N"}, {"K","R"}, {"H"} }
    [] size = 15 -> { {"L","V","I","M"}, {"C"}, {"A"}, {"G"}, {"S"}, {"T"}, {"P"}, {"F","Y"}, {"W"}, {"E"}, {"Q"}, {"D"}, {"N"}, {"K","R"}, {"H"} }
    [] size = 18 -> { {"L","M"}, {"V","I"}, {"C"}, {"A"}, {"G"}, {"S"}, {"T"}, {"P"}, {"F"}, {"Y"}, {"W"}, {"E"}, {"D"}, {"N"}, {"Q"}, {"K"}, {"R"}, {"H"} }
    [] size = 20 -> { {r} : r \in Residues }
GroupOf(size, r) == CHOOSE g \in Partition(size) : r \in g
\* a reduction map m (residue -> residue) implements the partition of `size' iff it is constant on
\* groups, separates groups, and maps each group to one of its own members
ImplementsPartition(m, size) ==
  /\ \A r \in Residues : m[r] \in GroupOf(size, r)
  /\ \A r, q \in Residues : (m[r] = m[q]) <=> (GroupOf(size, r) = GroupOf(size, q))
CanonMap(size) == [r \in Residues |-> CHOOSE x \in GroupOf(size, r) : TRUE]
\* a user alphabet (a partial function given as a record/function) is acceptable iff it maps all 20 residues to residues
UserAlphabetValid(ua) == \A r \in Residues : r \in DOMAIN ua /\ ua[r] \in Residues
Reduce(m, seq) == [i \in 1..Len(seq) |-> m[seq[i]]]

(***************************************************************************)
(* Complexity profiles.                                                    *)
(***************************************************************************)
\* NumWindows, WindowStart and the pieces of the position row: module Geometry (ProofsGeometry: WindowsFit, PositionRow)
\* the position row as the implementation distributes K points over 1..N
PosRowCode(N, K) == [j \in 1..PosCount(N, K) |-> PosStart(N, K) + (j - 1) * PosSpacing(N, K)]
PosRowOK(row, N, K) == /\ Len(row) = K
                       /\ \A j \in 1..K : row[j] \in 1..N
                       /\ \A j \in 1..(K-1) : row[j] < row[j+1]

\* linguistic complexity of a window (sequence of letters), as coded: distinct words among the
\* first W - ws start positions, over min(|alphabet|^ws, W - 1 + ws)
Pow(a, k) == IF k = 0 THEN 1 ELSE LET RECURSIVE P(_) P(j) == IF j = 0 THEN 1 ELSE IF P(j-1) > 100000 THEN 100001 ELSE a * P(j-1) IN P(k)
Min2(a, b) == IF a < b THEN a ELSE b
LCValue(win, ws, asize) ==
  LET W == Len(win)
      words == {SubSeq(win, i, i + ws - 1) : i \in 1..(W - ws)}
  IN Q(Cardinality(words), Min2(Pow(asize, ws), W - 1 + ws))
\* Lempel-Ziv-Welch as coded (note the word grows by prepending)
RECURSIVE LZWScan(_,_,_,_)
LZWScan(win, i, wcur, grams) ==
  IF i > Len(win) THEN Cardinality(grams)
  ELSE LET cand == wcur \o <<win[i]>> IN
       IF cand \in grams THEN LZWScan(win, i + 1, <<win[i]>> \o wcur, grams)
       ELSE LZWScan(win, i + 1, <<win[i]>>, grams \cup {cand})
LZWValue(win) == Q(LZWScan(win, 1, <<>>, {}), Len(win))
\* the counts that enter the Wootton-Federhen entropy of a window: one per letter of the alphabet
WFCounts(win, alphabet) == [a \in alphabet |-> Cardinality({i \in 1..Len(win) : win[i] = a})]
=============================================================================
