---------------------------- MODULE MC_Complexity ----------------------------
(***************************************************************************)
(* C11 (M): for every (N, w, s) the implementation's position row has      *)
(* K = floor((N-w)/s)+1 strictly increasing entries within 1..N; for every *)
(* window over a 3-letter alphabet the LC and LZW values lie in [0,1] and  *)
(* the WF counts sum to the window length.                                 *)
(***************************************************************************)
EXTENDS Profiles, TLC
CONSTANTS MaxN, MaxWin
VARIABLES c, win       \* c = <<N, w, s>> (geometry part), win = a window (value part)
Init == c = <<1, 1, 1>> /\ win = <<>>
NextGeom == /\ win = <<>>
            /\ \/ c[1] < MaxN /\ c' = [c EXCEPT ![1] = @ + 1]
               \/ c[2] < c[1] /\ c' = [c EXCEPT ![2] = @ + 1]
               \/ c[3] < c[1] /\ c' = [c EXCEPT ![3] = @ + 1]
            /\ UNCHANGED win
NextWin == /\ c = <<1, 1, 1>> /\ Len(win) < MaxWin
           /\ \E a \in {"L", "F", "E"} : win' = Append(win, a)
           /\ UNCHANGED c
Next == NextGeom \/ NextWin
Spec == Init /\ [][Next]_<<c, win>>
N == c[1]
w == c[2]
s == c[3]
K == NumWindows(N, w, s)
Geometry == w <= N => /\ K >= 1 /\ WindowStart(K, s) + w - 1 <= N
                      /\ (K + 1 - 1) * s + 1 + w - 1 > N          \* window K+1 would not fit
                      /\ PosRowOK(PosRowCode(N, K), N, K)
InUnit(x) == x[1] >= 0 /\ x[1] <= x[2] /\ x[2] > 0
Values == Len(win) >= 1 =>
   /\ \A ws \in 1..4 : InUnit(LCValue(win, ws, 3))
   /\ InUnit(LZWValue(win))
   /\ LET cnt == WFCounts(win, {"L", "F", "E"}) IN cnt["L"] + cnt["F"] + cnt["E"] = Len(win)
\* a homopolymeric window has a single non-zero count equal to its length (entropy 0)
Homopolymer == (Len(win) >= 1 /\ \A i \in 1..Len(win) : win[i] = win[1]) =>
                  WFCounts(win, {"L", "F", "E"})[win[1]] = Len(win)
=============================================================================
