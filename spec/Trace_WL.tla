------------------------------ MODULE Trace_WL ------------------------------
(***************************************************************************)
(* Validation of recorded Wang-Landau runs (C18) against the WangLandau    *)
(* state machine.  Events come from the guarded hook in run_normal_WL      *)
(* (init / step / flat / end), joined by the harness with the draws the    *)
(* recording RNG logged, and from the parsed output files (files).         *)
(* Encodings by the harness: floats as fx; ln(acceptProb) and ln f in      *)
(* units of 2^-kmax (with a residual check); u and acceptProb as integers  *)
(* U = u * 2^53 and ceil(p * 2^53) so that "u < p" is exact.               *)
(***************************************************************************)
EXTENDS TraceBase, WangLandau, Patterning
VARIABLES t, l, verdict, cur, input, mn, known
vars == <<t, l, verdict, cur, input, mn, known, wlvars>>
Tr == Traces[t]
Ev == Tr.ev[l + 1]

Rearr(a, b) == Len(a) = Len(b) /\ \A r \in Residues :
                 Cardinality({i \in 1..Len(a) : a[i] = r}) = Cardinality({i \in 1..Len(b) : b[i] = r})
\* bins (0-based) whose centre is nearest to kappa = clamp(dn/mnum); two bins on an exact boundary tie
RECURSIVE FirstJ(_,_,_,_)
FirstJ(dnb, mnum, j, nb) == IF j > nb THEN nb + 1 ELSE IF BLe(dnb, BMulNat(mnum, j)) THEN j ELSE FirstJ(dnb, mnum, j + 1, nb)
BinsOf(dn, mnum, nb) ==
  IF mnum = BZero THEN {0}
  ELSE LET dnb == BMulNat(dn, nb)
           j == FirstJ(dnb, mnum, 1, nb) IN
       IF j > nb THEN {nb - 1}
       ELSE IF dnb = BMulNat(mnum, j) /\ j < nb THEN {j - 1, j} ELSE {j - 1}
KappaOK(fxv, dn, mnum) ==
  IF mnum = BZero THEN REq(RFromFx(fxv), KappaSentinel)
  ELSE RClose(RFromFx(fxv), Clamp(RMk(1, dn, mnum))) \/ (RClose(RFromFx(fxv), ROne) /\ RNear(RMk(1, dn, mnum), ROne))
GClose(gf, units) == \A b \in Bins : RClose(RFromFx(gf[b + 1]), RFrac(units[b], Pow2N(cfg.kmax)))
Centre(j, nb) == RFrac(2 * j + 1, 2 * nb)

JudgeInit(e) ==
  LET x == ChargePattern(e.input)
      c == e.cfg
      expNB == (c.reqn * c.reqden) \div (c.reqmaxnum - c.reqminnum) IN
  IF ~Rearr(e.input, e.start) THEN "start-not-a-rearrangement"
  ELSE IF (c.reqn * c.reqden) % (c.reqmaxnum - c.reqminnum) # 0 THEN "machinery:request-not-on-a-bin-grid"
  ELSE IF c.nb # expNB THEN "bins-do-not-partition-[0,1]-at-the-requested-width"
  ELSE IF c.rmin * c.reqden # c.reqminnum * c.nb \/ (c.rmax + 1) * c.reqden # c.reqmaxnum * c.nb \/ c.nbt # c.rmax - c.rmin + 1
       THEN "window-is-not-the-requested-range"
  ELSE IF Len(e.bincts) # c.nb \/ \E j \in 0..(c.nb - 1) : ~RClose(RFromFx(e.bincts[j + 1]), Centre(j, c.nb)) THEN "bin-centres"
  ELSE IF ~KappaOK(e.startkappa, DeltaNum(ChargePattern(e.start)), DeltaMaxNum(NPos(x), NNeg(x), NNeut(x))) THEN "start-kappa"
  ELSE IF e.idx_old \notin BinsOf(DeltaNum(ChargePattern(e.start)), DeltaMaxNum(NPos(x), NNeg(x), NNeut(x)), c.nb) THEN "start-bin"
  ELSE IF e.lnf # Pow2N(c.kmax) THEN "initial-f-is-not-e"
  ELSE OK

JudgeStep(e) ==      \* e: a step event; evaluated in the state before the step
  LET dn == DeltaNum(ChargePattern(e.prop))
      inside == Inside(e.idx_new)
      nbin == IF e.acc THEN e.idx_new ELSE bin IN
  IF ~Running THEN "step-after-convergence"
  ELSE IF phase # "step" THEN "step-where-a-flat-check-is-scheduled"
  ELSE IF e.from # cur \/ e.idx_from # bin THEN "state-not-carried-over"
  ELSE IF e.nstep # nstep THEN "step-counter"
  ELSE IF e.lnf # Unit(k) THEN "f-changed-outside-a-flat-check"
  ELSE IF ~Rearr(input, e.prop) THEN "proposal-not-a-rearrangement"
  ELSE IF ~KappaOK(e.knew, dn, mn) THEN "proposal-kappa"
  ELSE IF e.idx_new \notin BinsOf(dn, mn, cfg.nb) THEN "proposal-bin"
  ELSE IF e.skip # ~inside THEN "range-test"
  ELSE IF e.skip /\ e.acc THEN "moved-outside-the-requested-range"
  ELSE IF ~e.skip /\ e.lnp # LnP(bin, e.idx_new) THEN "acceptance-probability"
  ELSE IF ~e.skip /\ e.acc # BLt(e.u53, e.pceil) THEN "acceptance-decision"
  ELSE IF e.cur # (IF e.acc THEN e.prop ELSE cur) \/ e.idx_old # nbin THEN "state-after-decision"
  ELSE IF e.H # [b \in 1..cfg.nb |-> IF ~e.skip /\ b - 1 = nbin THEN H[b - 1] + 1 ELSE H[b - 1]] THEN "histogram-update"
  ELSE IF \E b \in Bins : ~RClose(RFromFx(e.g[b + 1]), RFrac(IF ~e.skip /\ b = nbin THEN g[b] + Unit(k) ELSE g[b], Pow2N(cfg.kmax))) THEN "g-update"
  ELSE OK

JudgeFlat(e) ==      \* evaluated in the state before the check
  IF phase # "flat" THEN "flat-check-not-scheduled"
  ELSE IF e.Hlocal # [j \in 1..cfg.nbt |-> H[cfg.rmin + j - 1]] THEN "flat-check-histogram"
  ELSE IF e.nflat # NumFlat THEN "flat-count"
  ELSE IF AllFlat /\ (e.niter # k + 1 \/ e.lnf # Pow2N(cfg.kmax - (k + 1)) \/ e.H # [b \in 1..cfg.nb |-> 0]) THEN "flat-histogram-must-halve-ln-f-and-reset"
  ELSE IF ~AllFlat /\ (e.niter # k \/ e.lnf # Unit(k) \/ e.H # [b \in 1..cfg.nb |-> H[b - 1]]) THEN "f-or-histogram-changed-though-not-flat"
  ELSE IF ~GClose(e.g, g) THEN "g-changed-in-flat-check"
  ELSE OK

JudgeEnd(e) ==
  IF phase # "done" THEN "stopped-before-convergence"
  ELSE IF ~GClose(e.g, g) THEN "returned-g"
  ELSE IF Len(e.bincts) # cfg.nb \/ \E j \in Bins : ~RClose(RFromFx(e.bincts[j + 1]), Centre(j, cfg.nb)) THEN "returned-bin-centres"
  ELSE OK

Within(fxv, r, tolnum, tolden) == RLe(RAbs(RSub(RFromFx(fxv), r)), RFrac(tolnum, tolden))
JudgeFiles(e) ==     \* parsed DOS.txt, histogram_bins.txt, glog.txt, seqlog.txt after the run
  IF Len(e.dos) # cfg.nb \/ \E j \in Bins : ~Within(e.dos[j + 1].c, Centre(j, cfg.nb), 6, 10000) THEN "DOS-bin-centres"
  ELSE IF \E j \in Bins : ~Within(e.dos[j + 1].g, RFrac(g[j], Pow2N(cfg.kmax)), 2, 1000000) THEN "DOS-values"
  ELSE IF Len(e.hbins) # cfg.nb \/ \E j \in Bins : ~Within(e.hbins[j + 1], Centre(j, cfg.nb), 6, 100000) THEN "histogram-bins-file"
  ELSE IF Len(e.glog) # k THEN "glog-iterations"
  ELSE IF \E i \in 1..Len(e.seqlog) :
            LET s == e.seqlog[i].seq IN
            ~Rearr(input, s) \/ (mn # BZero /\ ~Within(e.seqlog[i].kappa, Clamp(RMk(1, DeltaNum(ChargePattern(s)), mn)), 6, 10000))
       THEN "sequence-log-kappa"
  ELSE OK

TInit == /\ t \in 1..Len(Traces) /\ l = 0 /\ verdict = <<"run">> /\ cur = <<>> /\ input = <<>> /\ mn = BZero /\ known = 0
         /\ WLInit([nb |-> 1, rmin |-> 0, rmax |-> 0, nbt |-> 1, nflat |-> 1, kmax |-> 0, fnum |-> 1, fden |-> 1, conv |-> 0], 0)
Reject(j) == /\ verdict' = <<"reject", l + 1, j>> /\ PrintT(<<"REJ", ToJson([tid |-> Tr.tid, ev |-> l + 1, clause |-> j])>>)
             /\ UNCHANGED <<t, l, cur, input, mn, known, wlvars>>
TStartEv == /\ verdict = <<"run">> /\ l = 0 /\ l < Len(Tr.ev) /\ Ev.ev = "init"
            /\ LET e == Ev  j == JudgeInit(e)  c == e.cfg  x == ChargePattern(e.input) IN
               IF j # OK THEN Reject(j)
               ELSE /\ WLSet([nb |-> c.nb, rmin |-> c.rmin, rmax |-> c.rmax, nbt |-> c.nbt, nflat |-> c.nflat, kmax |-> c.kmax,
                              fnum |-> c.fnum, fden |-> c.fden, conv |-> c.conv], e.idx_old)
                    /\ cur' = e.start /\ input' = e.input /\ mn' = DeltaMaxNum(NPos(x), NNeg(x), NNeut(x))
                    /\ l' = 1 /\ UNCHANGED <<t, verdict, known>>
TStep == /\ verdict = <<"run">> /\ l >= 1 /\ l < Len(Tr.ev) /\ Ev.ev = "step"
         /\ LET e == Ev  j == JudgeStep(e) IN
            IF j # OK THEN Reject(j)
            ELSE /\ WLStep(e.idx_new, e.acc) /\ cur' = e.cur /\ l' = l + 1 /\ UNCHANGED <<t, verdict, input, mn, known>>
TFlat == /\ verdict = <<"run">> /\ l >= 1 /\ l < Len(Tr.ev) /\ Ev.ev = "flat"
         /\ LET e == Ev  j == JudgeFlat(e) IN
            IF j # OK THEN Reject(j)
            ELSE /\ FlatCheck /\ l' = l + 1 /\ UNCHANGED <<t, verdict, cur, input, mn, known>>
TEnd == /\ verdict = <<"run">> /\ l >= 1 /\ l < Len(Tr.ev) /\ Ev.ev \in {"end", "files"}
        /\ LET e == Ev  j == IF e.ev = "end" THEN JudgeEnd(e) ELSE JudgeFiles(e) IN
           IF j # OK THEN Reject(j) ELSE l' = l + 1 /\ UNCHANGED <<t, verdict, cur, input, mn, known, wlvars>>
\* a run cut short by the draw budget: its prefix has been validated
TBudget == /\ verdict = <<"run">> /\ l >= 1 /\ l < Len(Tr.ev) /\ Ev.ev = "budget"
           /\ l' = l + 1 /\ UNCHANGED <<t, verdict, cur, input, mn, known, wlvars>>
\* total verdicts: an event that is out of place (e.g. a step logged where the flat check was due)
TOutOfPlace == /\ verdict = <<"run">> /\ l < Len(Tr.ev)
               /\ \/ l = 0 /\ Ev.ev # "init"
                  \/ l >= 1 /\ Ev.ev \notin {"step", "flat", "end", "files", "budget"}
               /\ Reject("event-out-of-place")
Done == /\ verdict = <<"run">> /\ l = Len(Tr.ev)
        /\ verdict' = <<"accept">> /\ PrintT(<<"ACC", ToJson([tid |-> Tr.tid, n |-> l])>>)
        /\ UNCHANGED <<t, l, cur, input, mn, known, wlvars>>
TNext == TStartEv \/ TStep \/ TFlat \/ TEnd \/ TBudget \/ TOutOfPlace \/ Done
TSpec == TInit /\ [][TNext]_vars
NoReject == verdict[1] # "reject"
\* the state-machine properties hold along every validated run as well
RunInvariants == (l >= 1 /\ verdict[1] # "reject") => (GIncrement /\ StopRule)
=============================================================================
