---------------------------- MODULE MC_ObjectHist ----------------------------
(***************************************************************************)
(* The object state machine with its call history kept in the state, so    *)
(* that every behaviour prefix of length MaxHist is a state and can be     *)
(* printed for replay into the real objects (G): per step the call, its    *)
(* argument and the abstract post-state of every object and of the shared  *)
(* default.                                                                *)
(***************************************************************************)
EXTENDS MC_Object, Json
CONSTANTS MaxHist
VARIABLE hist
Proj == [objs |-> [o \in ObjIds |-> [alive |-> objs[o].alive, seq |-> objs[o].seq, dmaxSet |-> objs[o].dmax # None,
                                      permSet |-> objs[o].perm # None, sites |-> objs[o].sites, pal |-> objs[o].pal]],
         spGrps |-> shared.spGrps]
HInit == Init /\ hist = <<>>
HNext == /\ Len(hist) < MaxHist /\ Next
         /\ hist' = Append(hist, [call |-> last'.call, obj |-> last'.obj, arg |-> last'.arg, post |-> Proj'])
HSpec == HInit /\ [][HNext]_<<vars, hist>>
\* only behaviours that start by constructing an object say anything
Emit == (Len(hist) = MaxHist) => PrintT(<<"REC", ToJson([hist |-> hist])>>)
=============================================================================
