-------------------------------- MODULE Plots --------------------------------
(***************************************************************************)
(* Geometry of the diagram-of-states figure (C19): a marker lies in a      *)
(* closed convex polygon iff all edge cross products have one sign; in its *)
(* interior iff they are strictly of one sign.  Integer version for the    *)
(* bounded model (coordinates scaled), rational version for traces.        *)
(***************************************************************************)
EXTENDS Integers, Sequences, Rat
\* integer points <<x, y>>
CrossI(a, b, c) == (b[1] - a[1]) * (c[2] - a[2]) - (b[2] - a[2]) * (c[1] - a[1])
Nxt(poly, i) == poly[(i % Len(poly)) + 1]
InClosedI(poly, pt) == \/ \A i \in 1..Len(poly) : CrossI(poly[i], Nxt(poly, i), pt) >= 0
                       \/ \A i \in 1..Len(poly) : CrossI(poly[i], Nxt(poly, i), pt) <= 0
InInteriorI(poly, pt) == \/ \A i \in 1..Len(poly) : CrossI(poly[i], Nxt(poly, i), pt) > 0
                         \/ \A i \in 1..Len(poly) : CrossI(poly[i], Nxt(poly, i), pt) < 0
\* rational points <<x, y>> of Rat records
CrossR(a, b, c) == RSub(RMul(RSub(b[1], a[1]), RSub(c[2], a[2])), RMul(RSub(b[2], a[2]), RSub(c[1], a[1])))
InClosedR(poly, pt) == \/ \A i \in 1..Len(poly) : CrossR(poly[i], Nxt(poly, i), pt).s >= 0
                       \/ \A i \in 1..Len(poly) : CrossR(poly[i], Nxt(poly, i), pt).s <= 0
InInteriorR(poly, pt) == \/ \A i \in 1..Len(poly) : CrossR(poly[i], Nxt(poly, i), pt).s > 0
                         \/ \A i \in 1..Len(poly) : CrossR(poly[i], Nxt(poly, i), pt).s < 0
=============================================================================
