------------------------------ MODULE MC_Parser ------------------------------
(***************************************************************************)
(* C14 bounded instance.  Phase "build": every file of up to MaxLen tokens  *)
(* over ten character classes is built; phase "parse": the parser state     *)
(* machine (BlankLine / HeaderLine / SeqLine / Finish) runs on it.          *)
(***************************************************************************)
EXTENDS SeqInput, TLC, Json
CONSTANTS MaxLen
VARIABLES file, phase, lines, st, result
vars == <<file, phase, lines, st, result>>
\* K E k space tab 1 * > - LF
Tokens == {75, 69, 107, 32, 9, 49, 42, 62, 45, 10}
Sp == {32, 9, 10, 11, 12, 13}
None == [ok |-> FALSE, seq |-> <<-1>>]
Init == file = <<>> /\ phase = "build" /\ lines = <<>> /\ st = InitParser /\ result = None
Extend == phase = "build" /\ Len(file) < MaxLen /\ \E c \in Tokens : file' = Append(file, c)
          /\ UNCHANGED <<phase, lines, st, result>>
Open == phase = "build" /\ phase' = "parse" /\ lines' = Lines(file) /\ UNCHANGED <<file, st, result>>
Kind(raw) == LET l == Strip(raw, Sp) IN IF l = <<>> THEN "blank" ELSE IF l[1] = GT THEN "header" ELSE "seq"
LineAct(k) == /\ phase = "parse" /\ lines # <<>> /\ Kind(Head(lines)) = k
              /\ st' = LineStep(st, Head(lines), Sp) /\ lines' = Tail(lines)
              /\ UNCHANGED <<file, phase, result>>
BlankLine == LineAct("blank")
HeaderLine == LineAct("header")
SeqLine == LineAct("seq")
FinishAct == phase = "parse" /\ lines = <<>> /\ phase' = "done" /\ result' = Finish(st)
             /\ UNCHANGED <<file, lines, st>>
Next == Extend \/ Open \/ BlankLine \/ HeaderLine \/ SeqLine \/ FinishAct
Spec == Init /\ [][Next]_vars

\* the documentation's reading, stated without a state machine
DocBody == SelectSeq([i \in 1..Len(Lines(file)) |-> Strip(Lines(file)[i], Sp)], LAMBDA l : l # <<>>)
DocHeaders == Cardinality({i \in 1..Len(DocBody) : DocBody[i][1] = GT})
RECURSIVE Concat(_)
Concat(ls) == IF ls = <<>> THEN <<>> ELSE Head(ls) \o Concat(Tail(ls))
DocSeqLines == SelectSeq(DocBody, LAMBDA l : l[1] # GT)
DocChars == SelectSeq(Concat(DocSeqLines), LAMBDA c : c # SPACE /\ c \notin Digits)
DocOk == /\ DocHeaders <= 1
         /\ \A i \in 1..Len(DocChars) : DocChars[i] \in AACodes \/ DocChars[i] = STAR
         /\ \/ Stars(DocChars) = 0
            \/ Stars(DocChars) = 1 /\ DocChars[Len(DocChars)] = STAR
DocSeq == SelectSeq(DocChars, LAMBDA c : c # STAR)

MachineIsFunction == phase = "done" => result = ParseFile(file, Sp)
MachineIsDoc == phase = "done" => (result.ok = DocOk /\ (result.ok => result.seq = DocSeq))
ParsedIsResidues == (phase = "done" /\ result.ok) => \A i \in 1..Len(result.seq) : result.seq[i] \in AACodes
RejectIsSticky == [][st.status = "reject" => st'.status = "reject"]_vars
HeaderOnce == [][(st.header /\ HeaderLine) => st'.status = "reject"]_vars
Emit == phase = "done" => PrintT(<<"REC", ToJson([file |-> file, ok |-> result.ok, seq |-> IF result.ok THEN result.seq ELSE <<>>])>>)
=============================================================================
