------------------------------ MODULE SeqObject ------------------------------
(***************************************************************************)
(* The object life-cycle of SequenceParameters / Sequence as a state       *)
(* machine: construction, read-only queries through the two delta-max      *)
(* caches and the shared mutable default argument, phosphosite and palette *)
(* mutators, children made by shuffling.  One action per public entry      *)
(* point; `last' records the call, its reply and the reply a freshly       *)
(* constructed object (same sequence, sites, palette) would give.          *)
(*                                                                         *)
(* Replies of queries are symbolic terms over exactly the parts of the     *)
(* state the documentation lets them depend on; the caches and the shared  *)
(* default are modelled as coded, so TLC decides whether they can ever be  *)
(* observed.  LegacyCache = TRUE is the cache logic of the pinned commit   *)
(* (before the fixes F1/F2), kept so that the self-test can show TLC       *)
(* finding those two defects as counterexamples.                           *)
(***************************************************************************)
EXTENDS Integers, Sequences, FiniteSets, Residues, ObjectFunctions
CONSTANTS ObjIds, Pool, SiteArgs, PalArgs, LegacyCache
VARIABLES objs, shared, last
vars == <<objs, shared, last>>

None == <<"none">>
Comp(seq) == << Cardinality({i \in 1..Len(seq) : seq[i] \in Positive}),
                Cardinality({i \in 1..Len(seq) : seq[i] \in Negative}),
                Cardinality({i \in 1..Len(seq) : seq[i] \notin Positive \cup Negative}) >>
Charged(seq) == Comp(seq)[1] + Comp(seq)[2] > 0
DMaxV(seq) == <<"dmax", Comp(seq)>>          \* delta-max depends on the composition only (C03)
PermV(seq) == <<"perm", seq>>                \* a delta-max permutant made of this object's residues

Dead == [alive |-> FALSE, seq |-> <<>>, dmax |-> None, perm |-> None, sites |-> <<>>, pal |-> DefaultPalette]
Fresh(s) == [alive |-> TRUE, seq |-> s, dmax |-> None, perm |-> None, sites |-> <<>>, pal |-> DefaultPalette]
Uncached(r) == [r EXCEPT !.dmax = None, !.perm = None]

(***************************************************************************)
(* deltaMax as coded: <<reply, record'>>                                   *)
(***************************************************************************)
DeltaMaxCode(r, want) ==
  LET r0 == IF ~LegacyCache /\ want /\ r.perm = None THEN [r EXCEPT !.dmax = None] ELSE r IN     \* fix F1
  IF r0.dmax # None /\ ~want THEN <<r0.dmax, r0>>
  ELSE IF r0.dmax # None /\ want /\ r0.perm # None THEN << <<r0.dmax, r0.perm>>, r0 >>
  ELSE \* the search: a candidate replaces the cached value (and, if asked, records its permutant) only
       \* when strictly better than what is stored
       LET improves == r0.dmax = None
           r1 == IF ~Charged(r0.seq)
                 THEN [r0 EXCEPT !.dmax = DMaxV(r0.seq),
                                 !.perm = IF LegacyCache THEN @ ELSE PermV(r0.seq)]               \* fix F2
                 ELSE IF improves THEN [r0 EXCEPT !.dmax = DMaxV(r0.seq), !.perm = IF want THEN PermV(r0.seq) ELSE @]
                 ELSE r0
       IN << IF want THEN <<r1.dmax, r1.perm>> ELSE r1.dmax, r1 >>
KappaCode(r) ==      \* kappa() reads deltaMax() (no permutant) and divides
  LET dm == DeltaMaxCode(r, FALSE) IN << <<"kappa", r.seq, dm[1]>>, dm[2] >>

(***************************************************************************)
(* actions                                                                 *)
(***************************************************************************)
QueryKinds == {"pure", "phospho", "html", "derived", "kappaPhos", "deltaMax", "deltaMaxPerm", "kappa", "composition-default", "composition-user"}
MutatorKinds == {"construct", "set_phosphosites", "clear_phosphosites", "set_palette", "shuffle"}
IsQuery(c) == c \in QueryKinds

Obs(call, o, arg, reply, fresh) == [call |-> call, obj |-> o, arg |-> arg, reply |-> reply, fresh |-> fresh]

Construct(o, s) ==
  /\ objs' = [objs EXCEPT ![o] = Fresh(s)]
  /\ UNCHANGED shared
  /\ last' = Obs("construct", o, s, None, None)

\* a read-only query whose reply may depend on t(r) only and which touches no cache
Plain(o, kind, term(_)) ==
  /\ objs[o].alive
  /\ UNCHANGED <<objs, shared>>
  /\ last' = Obs(kind, o, None, term(objs[o]), term(Uncached(objs[o])))
QueryPure(o) == LET f(r) == <<"pure", r.seq>> IN Plain(o, "pure", f)
QueryPhospho(o) == LET f(r) == <<"phospho", r.seq, r.sites, PhosphoSeq(r.seq, r.sites)>> IN Plain(o, "phospho", f)
QueryHTML(o) == LET f(r) == <<"html", Render(r.seq, r.pal)>> IN Plain(o, "html", f)
\* Omega, kappa_X, the phospho distribution: computed on fresh derived objects
QueryDerived(o) == LET f(r) == <<"derived", r.seq, r.sites>> IN Plain(o, "derived", f)

GetDeltaMax(o, want) ==
  /\ objs[o].alive
  /\ LET res == DeltaMaxCode(objs[o], want)
         fr == DeltaMaxCode(Uncached(objs[o]), want) IN
     /\ objs' = [objs EXCEPT ![o] = res[2]]
     /\ last' = Obs(IF want THEN "deltaMaxPerm" ELSE "deltaMax", o, None, res[1], fr[1])
  /\ UNCHANGED shared
GetKappa(o) ==
  /\ objs[o].alive
  /\ LET res == KappaCode(objs[o])
         fr == KappaCode(Uncached(objs[o])) IN
     /\ objs' = [objs EXCEPT ![o] = res[2]]
     /\ last' = Obs("kappa", o, None, res[1], fr[1])
  /\ UNCHANGED shared

\* get_kappa_after_phosphorylation: with no phosphosites it is the object's own kappa() (through the cache);
\* otherwise the kappa of a fresh object built from the phospho-sequence
GetKappaPhos(o) ==
  /\ objs[o].alive
  /\ LET code(r) == IF r.sites = <<>> THEN KappaCode(r) ELSE << <<"kappa", PhosphoSeq(r.seq, r.sites), DMaxV(PhosphoSeq(r.seq, r.sites))>>, r >>
         res == code(objs[o])
         fr == code(Uncached(objs[o])) IN
     /\ objs' = [objs EXCEPT ![o] = res[2]]
     /\ last' = Obs("kappaPhos", o, None, res[1], fr[1])
  /\ UNCHANGED shared

\* get_linear_sequence_composition: with no groups given the shared default list is used and, when it is
\* still empty, filled with the seven default groups -- later default calls find it non-empty and take
\* the user-group path with those same seven groups
DefaultGroupsId == 7
GetComposition(o, user) ==
  /\ objs[o].alive
  /\ LET groupsUsed == IF user THEN <<"user">> ELSE IF shared.spGrps = 0 THEN <<"seven-defaults">> ELSE <<"stored", shared.spGrps>>
         norm(g) == IF g = <<"stored", DefaultGroupsId>> THEN <<"seven-defaults">> ELSE g IN
     /\ last' = Obs(IF user THEN "composition-user" ELSE "composition-default", o, None,
                    <<"composition", objs[o].seq, norm(groupsUsed)>>,
                    <<"composition", objs[o].seq, IF user THEN <<"user">> ELSE <<"seven-defaults">> >>)
     /\ shared' = IF ~user /\ shared.spGrps = 0 THEN [shared EXCEPT !.spGrps = DefaultGroupsId] ELSE shared
  /\ UNCHANGED objs

SetPhosphosites(o, arg) ==
  /\ objs[o].alive
  /\ objs' = [objs EXCEPT ![o].sites = SetSitesSpec(objs[o].seq, @, arg)]
  /\ UNCHANGED shared
  /\ last' = Obs("set_phosphosites", o, arg, None, None)
ClearPhosphosites(o) ==
  /\ objs[o].alive
  /\ objs' = [objs EXCEPT ![o].sites = <<>>]
  /\ UNCHANGED shared
  /\ last' = Obs("clear_phosphosites", o, None, None, None)
SetPalette(o, d) ==          \* validate, then commit
  /\ objs[o].alive
  /\ objs' = IF ValidPalette(d) THEN [objs EXCEPT ![o].pal = Restrict(d)] ELSE objs
  /\ UNCHANGED shared
  /\ last' = Obs("set_palette", o, d, IF ValidPalette(d) THEN <<"ok">> ELSE <<"rejected">>, None)
\* get_shuffled_sequence / get_permutant: a new object with a rearranged sequence that carries the parent's cached delta-max
IsRearrangement(a, b) == Len(a) = Len(b) /\ \A r \in Residues :
                            Cardinality({i \in 1..Len(a) : a[i] = r}) = Cardinality({i \in 1..Len(b) : b[i] = r})
\* the rearrangements explored by the bounded model (the trace specification accepts any rearrangement)
Rotations(s) == {[i \in 1..Len(s) |-> s[Len(s) + 1 - i]]}
Shuffle(o, o2, newseq) ==
  /\ objs[o].alive /\ o2 # o
  /\ IsRearrangement(newseq, objs[o].seq)
  /\ objs' = [objs EXCEPT ![o2] = [Fresh(newseq) EXCEPT !.dmax = objs[o].dmax]]
  /\ UNCHANGED shared
  /\ last' = Obs("shuffle", o, o2, None, None)

Init == objs = [o \in ObjIds |-> Dead] /\ shared = [spGrps |-> 0] /\ last = Obs("init", None, None, None, None)
Next == \E o \in ObjIds :
          \/ \E s \in Pool : Construct(o, s)
          \/ QueryPure(o) \/ QueryPhospho(o) \/ QueryHTML(o) \/ QueryDerived(o)
          \/ GetDeltaMax(o, FALSE) \/ GetDeltaMax(o, TRUE) \/ GetKappa(o) \/ GetKappaPhos(o)
          \/ GetComposition(o, FALSE) \/ GetComposition(o, TRUE)
          \/ \E a \in SiteArgs : SetPhosphosites(o, a)
          \/ ClearPhosphosites(o)
          \/ \E d \in PalArgs : SetPalette(o, d)
          \/ \E o2 \in ObjIds : \E s \in Rotations(objs[o].seq) : Shuffle(o, o2, s)
Spec == Init /\ [][Next]_vars

(***************************************************************************)
(* properties                                                              *)
(***************************************************************************)
\* C15
HistoryIndependent == IsQuery(last.call) => last.reply = last.fresh
ReadOnlyFrame == [][IsQuery(last'.call) => \A o \in ObjIds :
                      objs'[o].seq = objs[o].seq /\ objs'[o].sites = objs[o].sites /\ objs'[o].pal = objs[o].pal
                      /\ objs'[o].alive = objs[o].alive]_vars
CrossObjectFrame == [][\A o \in ObjIds : (o # last'.obj /\ ~(last'.call = "shuffle" /\ o = last'.arg)) => objs'[o] = objs[o]]_vars
\* a cached delta-max is always the delta-max of the object's own composition (so children may carry it)
CacheSound == \A o \in ObjIds : objs[o].alive =>
                 /\ objs[o].dmax \in {None, DMaxV(objs[o].seq)}
                 /\ objs[o].perm \in {None, PermV(objs[o].seq)}
                 /\ (objs[o].perm # None => objs[o].dmax # None)
\* C16
SitesValid == \A o \in ObjIds : objs[o].alive => \A i \in 1..Len(objs[o].sites) :
                 objs[o].sites[i] \in 1..Len(objs[o].seq) /\ objs[o].seq[objs[o].sites[i]] \in Phosphorylatable
NoRepeats == \A o \in ObjIds : \A i, j \in 1..Len(objs[o].sites) : i # j => objs[o].sites[i] # objs[o].sites[j]
SeqImmutable == [][\A o \in ObjIds : (objs[o].alive /\ last'.call \notin {"construct", "shuffle"}) => objs'[o].seq = objs[o].seq]_vars
SitesOnlyGrowOrClear == [][\A o \in ObjIds : objs[o].alive /\ objs'[o].alive /\ last'.call \notin {"construct", "shuffle"} =>
                             \/ objs'[o].sites = <<>> /\ last'.call = "clear_phosphosites"
                             \/ /\ Len(objs'[o].sites) >= Len(objs[o].sites)
                                /\ SubSeq(objs'[o].sites, 1, Len(objs[o].sites)) = objs[o].sites]_vars
\* the code-shaped fold over the argument does what the documentation says one call may do
SetSemantics == [][last'.call = "set_phosphosites" =>
                     SetSitesDoc(objs[last'.obj].seq, objs[last'.obj].sites, last'.arg, objs'[last'.obj].sites)]_vars
ClearEmpties == [][last'.call = "clear_phosphosites" => objs'[last'.obj].sites = <<>>]_vars
\* C20
PaletteAtomic == [][last'.call = "set_palette" =>
                      IF ValidPalette(last'.arg) THEN objs'[last'.obj].pal = Restrict(last'.arg)
                      ELSE objs'[last'.obj].pal = objs[last'.obj].pal]_vars
PaletteTotal == \A o \in ObjIds : \A r \in Residues : objs[o].pal[r] \in HTMLColours
=============================================================================
