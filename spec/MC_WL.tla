-------------------------------- MODULE MC_WL --------------------------------
(***************************************************************************)
(* Bounded instance of the Wang-Landau state machine: 3-4 bins, windows    *)
(* with and without excluded bins, tiny flat-check periods, every start    *)
(* bin, every proposal and every allowed decision, behaviours of bounded   *)
(* length.                                                                 *)
(***************************************************************************)
EXTENDS WangLandau, TLC
CONSTANTS MaxDepth
Configs == { [nb |-> 3, rmin |-> 0, rmax |-> 2, nbt |-> 3, nflat |-> 2, kmax |-> 2, fnum |-> 1, fden |-> 2, conv |-> 1],
             [nb |-> 4, rmin |-> 1, rmax |-> 2, nbt |-> 2, nflat |-> 3, kmax |-> 2, fnum |-> 4, fden |-> 5, conv |-> 2],
             [nb |-> 3, rmin |-> 1, rmax |-> 2, nbt |-> 2, nflat |-> 2, kmax |-> 1, fnum |-> 3, fden |-> 10, conv |-> 1] }
Init == \E c \in Configs : \E b0 \in 0..(c.nb - 1) : WLInit(c, b0)
Spec == Init /\ [][WLNext]_wlvars
Depth == TLCGet("level") <= MaxDepth
NeverDone == phase # "done"     \* vacuity probe: must be violated (a run can finish)
=============================================================================
