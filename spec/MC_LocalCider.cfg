SPECIFICATION LibSpec
CONSTANTS
 ObjIds <- MCObj
 Pool <- MCPoolL
 SiteArgs <- MCSites
 PalArgs <- MCPal
 LegacyCache = FALSE
 WLConfigs <- MCWL
CONSTRAINT LibDepth
INVARIANT LibInvariants
PROPERTY LibFrame
PROPERTY SamplerFrame
PROPERTY LibNeverLeavesWindow
PROPERTY LibCountRule
PROPERTY ReadOnlyFrame
CHECK_DEADLOCK FALSE
