SPECIFICATION LibSpec
CONSTANTS
 ObjIds <- MCObj
 Pool <- MCPoolL
 SiteArgs <- MCSites
 PalArgs <- MCPal
 LegacyCache = FALSE
 WLConfigs <- MCWL
 Pow2N <- Pow2NRec
 SumOver <- SumOverRec
CONSTRAINT LibDepth
INVARIANT LibInvariants
PROPERTY LibFrame
PROPERTY SamplerFrame
PROPERTY LibNeverLeavesWindow
PROPERTY LibCountRule
PROPERTY ReadOnlyFrame
CHECK_DEADLOCK FALSE
