-------------------------------- MODULE Moves --------------------------------
(***************************************************************************)
(* The permutation moves of the sampler with every random draw explicit.   *)
(* A tape is a sequence of draws as the RNG shim encodes them:             *)
(*   <<"random", u>>  <<"randint", k>>  <<"sample", positions>>            *)
(*   <<"shuffle", permutation>>      (positions / permutations 0-based)    *)
(* Each move is a function of (sequence, frozen set, tape) returning       *)
(*   [st |-> "child" | "self" | "error" | "more", seq |-> ..., used |-> n]   *)
(* "self": the parent object itself is returned; "error": the code raises  *)
(* (documented errors); "more": the tape ended inside a retry loop.        *)
(* Indices are 0-based as in the code: At(s, i) = s[i+1].                  *)
(***************************************************************************)
EXTENDS Patterning, TLC
At(s, i) == s[i + 1]
Idx(s) == 0..(Len(s) - 1)
Asc(S) == SetToSortSeq(S, LAMBDA a, b : a < b)
Out(st, seq, used) == [st |-> st, seq |-> seq, used |-> used]
IsDraw(tape, k, kind) == k <= Len(tape) /\ tape[k][1] = kind

Rearrangement(a, b) == Len(a) = Len(b) /\ \A r \in Residues :
                          Cardinality({i \in 1..Len(a) : a[i] = r}) = Cardinality({i \in 1..Len(b) : b[i] = r})
FrozenKept(a, b, fz) == \A i \in fz : i \in Idx(a) => At(b, i) = At(a, i)

(***************************************************************************)
(* swapRes                                                                 *)
(***************************************************************************)
SwapRes(s, i, j) == [x \in 1..Len(s) |-> IF x - 1 = i THEN At(s, j) ELSE IF x - 1 = j THEN At(s, i) ELSE s[x]]

(***************************************************************************)
(* full_shuffle: M = ascending movable indices, L = M permuted by the      *)
(* draw; the code pops L from the end while walking the positions.         *)
(***************************************************************************)
FullShuffle(s, frozen, tape) ==
  LET mov == Idx(s) \ frozen
      M == Asc(mov)   k == Len(M) IN
  IF ~IsDraw(tape, 1, "shuffle") \/ Len(tape[1][2]) # k THEN Out("more", s, 0)
  ELSE IF {tape[1][2][j] : j \in 1..k} # 0..(k - 1) THEN Out("baddraw", s, 0)
  ELSE LET perm == tape[1][2]
           L == [j \in 1..k |-> M[perm[j] + 1]]
           rank(i) == Cardinality({m \in mov : m <= i})
       IN Out("child", [x \in 1..Len(s) |-> IF (x - 1) \in frozen THEN s[x] ELSE At(s, L[k + 1 - rank(x - 1)])], 1)

(***************************************************************************)
(* swapRandChargeRes                                                       *)
(***************************************************************************)
SwapRandCharge(s, frozen, tape) ==
  LET cp == ChargePattern(s)
      P == {i \in Idx(s) : At(cp, i) = 1} \ frozen
      Ng == {i \in Idx(s) : At(cp, i) = -1} \ frozen
      Z == {i \in Idx(s) : At(cp, i) = 0} \ frozen
      class(c) == IF c = 1 THEN P ELSE IF c = 2 THEN Ng ELSE Z
      fixed == IF Z = {} THEN (IF P = {} \/ Ng = {} THEN <<>> ELSE <<1, 2>>)
               ELSE IF Ng = {} THEN (IF P = {} THEN <<>> ELSE <<1, 3>>)
               ELSE IF P = {} THEN <<2, 3>> ELSE <<0>>           \* <<0>>: drawn
      drawn == fixed = <<0>>
      k0 == IF drawn THEN 1 ELSE 0
  IN IF fixed = <<>> THEN Out("self", s, 0)
     ELSE IF drawn /\ ~(IsDraw(tape, 1, "sample") /\ Len(tape[1][2]) = 2) THEN Out("more", s, 0)
     ELSE LET types == IF drawn THEN <<tape[1][2][1] + 1, tape[1][2][2] + 1>> ELSE fixed IN
          IF ~(IsDraw(tape, k0 + 1, "sample") /\ IsDraw(tape, k0 + 2, "sample")) THEN Out("more", s, 0)
          ELSE IF ~(types[1] \in 1..3 /\ types[2] \in 1..3 /\ types[1] # types[2]
                    /\ Len(tape[k0 + 1][2]) = 1 /\ tape[k0 + 1][2][1] \in 0..(Cardinality(class(types[1])) - 1)
                    /\ Len(tape[k0 + 2][2]) = 1 /\ tape[k0 + 2][2][1] \in 0..(Cardinality(class(types[2])) - 1))
               THEN Out("baddraw", s, 0)      \* the code drew from a different population than the specification's
          ELSE LET a == Asc(class(types[1]))[tape[k0 + 1][2][1] + 1]
                   b == Asc(class(types[2]))[tape[k0 + 2][2][1] + 1]
               IN Out("child", SwapRes(s, a, b), k0 + 2)

(***************************************************************************)
(* permute_block_swap                                                      *)
(***************************************************************************)
BlockSwapOnce(s, bs, a, b) ==
  LET s1 == a   s2 == b + (bs - 1)   w == bs - 1 IN      \* the slices exclude max(): only bs-1 residues move
  [x \in 1..Len(s) |-> LET i == x - 1 IN
     IF i >= s1 /\ i < s1 + w THEN At(s, s2 + (i - s1))
     ELSE IF i >= s2 /\ i < s2 + w THEN At(s, s1 + (i - s2)) ELSE s[x]]
\* index safety of one iteration: both blocks inside the sequence and not overlapping
BlockSafe(N, bs, a, b) == /\ a >= 0 /\ a < b /\ b + (bs - 1) + (bs - 1) <= N
                          /\ a + (bs - 1) <= b + (bs - 1)
Min2i(x, y) == IF x < y THEN x ELSE y
Max2i(x, y) == IF x < y THEN y ELSE x
RECURSIVE BlockLoop(_,_,_,_,_)
\* it = iterations already made; last = child of the previous iteration
BlockLoop(s, tape, k, it, last) ==
  IF it = 100 THEN Out("child", last, k - 1)                \* 100 tries without changing delta: the last child is returned
  ELSE IF ~(IsDraw(tape, k, "randint") /\ IsDraw(tape, k + 1, "sample") /\ Len(tape[k + 1][2]) = 2) THEN Out("more", last, k - 1)
  ELSE IF ~(tape[k][2] \in 2..(Len(s) \div 2)
            /\ tape[k + 1][2][1] \in 0..(Len(s) - 2 * (tape[k][2] - 1) - 1) /\ tape[k + 1][2][2] \in 0..(Len(s) - 2 * (tape[k][2] - 1) - 1)
            /\ tape[k + 1][2][1] # tape[k + 1][2][2]) THEN Out("baddraw", last, k - 1)
  ELSE LET bs == tape[k][2]
           a == Min2i(tape[k + 1][2][1], tape[k + 1][2][2])
           b == Max2i(tape[k + 1][2][1], tape[k + 1][2][2])
           child == BlockSwapOnce(s, bs, a, b)
           changed == DeltaNum(ChargePattern(child)) # DeltaNum(ChargePattern(s))
       IN IF changed THEN (IF it + 1 = 99 THEN Out("error", child, k + 1) ELSE Out("child", child, k + 1))
          \* exactly equal deltas: the code compares floats, which may differ in the last bit -- if the draws end here
          \* the code evidently stopped ("tie"); otherwise it retried
          ELSE IF k + 1 = Len(tape) /\ it + 1 < 100 THEN Out("tie", child, k + 1)
          ELSE BlockLoop(s, tape, k + 2, it + 1, child)
BlockSwap(s, tape) == IF Len(s) <= 3 THEN Out("error", s, 0) ELSE BlockLoop(s, tape, 1, 0, s)

(***************************************************************************)
(* permute_cluster_charges                                                 *)
(***************************************************************************)
CeilHalf(n) == (n + 1) \div 2
Half53 == BPow(<<2>>, 52)
ClusterOnce(s, letters, size, centre, samp) ==
  LET inC(i) == i >= centre - size \div 2 /\ i < centre + CeilHalf(size)
      C == Asc({i \in Idx(s) : inC(i)})
      pool == Asc({i \in Idx(s) : At(s, i) \in letters /\ ~inC(i)})
      W == Asc({pool[samp[j] + 1] : j \in 1..size})
      posIn(sq, v) == CHOOSE j \in 1..Len(sq) : sq[j] = v
      inSeq(sq, v) == \E j \in 1..Len(sq) : sq[j] = v
  IN [x \in 1..Len(s) |-> LET i == x - 1 IN
       IF inSeq(W, i) THEN At(s, C[posIn(W, i)])
       ELSE IF inSeq(C, i) THEN At(s, W[posIn(C, i)])
       ELSE s[x]]
PoolSize(s, letters, size, centre) ==
  Cardinality({i \in Idx(s) : At(s, i) \in letters /\ ~(i >= centre - size \div 2 /\ i < centre + CeilHalf(size))})
RECURSIVE ClusterInner(_,_,_,_,_)
\* the inner loop: draw (size, centre) until enough residues of the chosen sign lie outside the cluster; returns <<ok, size, centre, next k>>
ClusterInner(s, letters, ncharge, tape, k) ==
  IF ~(IsDraw(tape, k, "randint") /\ IsDraw(tape, k + 1, "randint")) THEN <<FALSE, 0, 0, k>>
  ELSE LET size == tape[k][2]  centre == tape[k + 1][2] IN
       IF ~(size \in 2..ncharge /\ centre \in (size \div 2)..(Len(s) - CeilHalf(size))) THEN <<FALSE, -1, 0, k>>
       ELSE IF PoolSize(s, letters, size, centre) - size >= 0 THEN <<TRUE, size, centre, k + 2>>
       ELSE ClusterInner(s, letters, ncharge, tape, k + 2)
RECURSIVE ClusterLoop(_,_,_,_)
ClusterLoop(s, tape, k, last) ==
  LET np == Cardinality({i \in Idx(s) : At(s, i) \in Positive})
      nn == Cardinality({i \in Idx(s) : At(s, i) \in Negative})
      needU == np >= 2 /\ nn >= 2
  IN IF needU /\ ~IsDraw(tape, k, "random") THEN Out("more", last, k - 1)
     ELSE LET pos == IF nn < 2 THEN TRUE ELSE IF np < 2 THEN FALSE ELSE BLt(tape[k][2], Half53)      \* u < 0.5 with u given as the limbs of u * 2^53
              k1 == IF needU THEN k + 1 ELSE k
              letters == IF pos THEN Positive ELSE Negative
              inner == ClusterInner(s, letters, IF pos THEN np ELSE nn, tape, k1)
          IN IF ~inner[1] THEN Out(IF inner[2] = -1 THEN "baddraw" ELSE "more", last, k - 1)
             ELSE IF ~(IsDraw(tape, inner[4], "sample") /\ Len(tape[inner[4]][2]) = inner[2]) THEN Out("more", last, k - 1)
             ELSE IF ~(\A j \in 1..inner[2] : tape[inner[4]][2][j] \in 0..(PoolSize(s, letters, inner[2], inner[3]) - 1))
                     \/ Cardinality({tape[inner[4]][2][j] : j \in 1..inner[2]}) # inner[2] THEN Out("baddraw", last, k - 1)
             ELSE LET child == ClusterOnce(s, letters, inner[2], inner[3], tape[inner[4]][2])
                      changed == DeltaNum(ChargePattern(child)) # DeltaNum(ChargePattern(s))
                  IN IF changed THEN Out("child", child, inner[4])
                     ELSE IF inner[4] = Len(tape) THEN Out("tie", child, inner[4])
                     ELSE ClusterLoop(s, tape, inner[4] + 1, child)
ClusterCharges(s, tape) ==
  IF Cardinality({i \in Idx(s) : At(s, i) \in Positive}) < 2 /\ Cardinality({i \in Idx(s) : At(s, i) \in Negative}) < 2
  THEN Out("error", s, 0) ELSE ClusterLoop(s, tape, 1, s)

\* swapRes(i, j) called directly: the two indices arrive as <<"arg", i>>, <<"arg", j>>; equal indices give a fresh copy
PairSwap(s, tape) ==
  IF ~(IsDraw(tape, 1, "arg") /\ IsDraw(tape, 2, "arg")) THEN Out("more", s, 0)
  ELSE IF ~(tape[1][2] \in Idx(s) /\ tape[2][2] \in Idx(s)) THEN Out("error", s, 2)
  ELSE Out("child", SwapRes(s, tape[1][2], tape[2][2]), 2)

Move(name, s, frozen, tape) ==
  CASE name = "swapRes" -> PairSwap(s, tape)
    [] name = "full_shuffle" -> FullShuffle(s, frozen, tape)
    [] name = "swapRandChargeRes" -> SwapRandCharge(s, frozen, tape)
    [] name = "permute_block_swap" -> BlockSwap(s, tape)
    [] name = "permute_cluster_charges" -> ClusterCharges(s, tape)
=============================================================================
