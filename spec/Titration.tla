------------------------------ MODULE Titration ------------------------------
(***************************************************************************)
(* pH-dependent charge (C09): Henderson-Hasselbalch fractions of K, R, H   *)
(* (positive) and D, E, C, Y (negative) at the EMBOSS pKa values, and the  *)
(* isoelectric-point bisection as a state machine.                         *)
(*                                                                         *)
(* The kernel 10^x enters as data: frac[r] = protonation-dependent charge  *)
(* fraction of residue r at the pH of the call, either derived from a      *)
(* table entry T = floor(10^(j/10) * 10^20) that TLC verifies by           *)
(* T^10 <= 10^j * 10^200 < (T+1)^10 (pH on the 0.1 grid), or supplied by   *)
(* the harness (60-digit decimals, trusted) for arbitrary pH.              *)
(***************************************************************************)
EXTENDS Rat, Residues, FiniteSets
Titratable == TitratePos \cup TitrateNeg
CountT(seq, r) == Cardinality({i \in 1..Len(seq) : seq[i] = r})
NTitratable(seq) == Cardinality({i \in 1..Len(seq) : seq[i] \in Titratable})

\* table entry verified:  T^10 <= 10^(j+200) < (T+1)^10   (j may be negative, j >= -200)
Pow10Checked(T, j) == LET rhs == BPow10(j + 200) IN BLe(BPow(T, 10), rhs) /\ BLt(rhs, BPow(BAdd(T, BOne), 10))
S20 == BPow10(20)
\* charge fraction of a residue whose (pH - pKa) * 10 = j, given T ~ 10^(j/10) * 10^20
\* positive residues: 1 / (1 + 10^(pH - pKa));  negative residues: 1 / (1 + 10^(pKa - pH)) = 10^(pH-pKa) / (1 + 10^(pH-pKa))
FracPos(T) == RMk(1, S20, BAdd(S20, T))
FracNeg(T) == RMk(1, T, BAdd(S20, T))

RECURSIVE SumFr(_,_,_,_)
\* sum over the residues in rs (a sequence of residue names) of sign * count * frac
SumFr(seq, frac, rs, total) ==
  IF rs = <<>> THEN RZero
  ELSE LET r == Head(rs)
           sg == IF r \in TitratePos THEN 1 ELSE IF total THEN 1 ELSE -1
           term == RMul(RFromInt(sg * CountT(seq, r)), frac[r]) IN
       RAdd(term, SumFr(seq, frac, Tail(rs), total))
TitOrder == <<"K", "R", "H", "D", "E", "C", "Y">>
NetCharge(seq, frac) == SumFr(seq, frac, TitOrder, FALSE)
TotalCharge(seq, frac) == SumFr(seq, frac, TitOrder, TRUE)
PHParam(name, seq, frac) ==
  LET N == RFromInt(Len(seq)) IN
  CASE name = "NCPR" -> RDiv(NetCharge(seq, frac), N)
    [] name = "FCR" -> RDiv(TotalCharge(seq, frac), N)
    [] name = "mean_net_charge" -> RAbs(RDiv(NetCharge(seq, frac), N))
    [] name = "fraction_expanding" -> RDiv(RAdd(TotalCharge(seq, frac), RFromInt(CountT(seq, "P"))), N)
\* the mean charge per titratable residue (what the isoelectric point must bring within 0.02 of zero)
MeanTitratableCharge(seq, frac) == IF NTitratable(seq) = 0 THEN RZero ELSE RDiv(NetCharge(seq, frac), RFromInt(NTitratable(seq)))
\* every fraction lies in [0,1]; consequences stated by the property
FracsOK(frac) == \A r \in Titratable : RLe(RZero, frac[r]) /\ RLe(frac[r], ROne)

(***************************************************************************)
(* The isoelectric-point search as coded: bisection on [lo, hi] with the   *)
(* bracket widened by one pH unit every 20 iterations (at most 10 times),  *)
(* against a sign oracle sgn(pH) in {1, 0, -1} (0: |charge| <= threshold). *)
(* pH values are integers in units of 2^-26.                               *)
(***************************************************************************)
PIUnit == 67108864        \* 2^26
PIInit == [lo |-> 0, hi |-> 14 * PIUnit, bc |-> 0, ec |-> 0, last |-> 0, st |-> "run", res |-> 0]
PIStep(s, sgn(_)) ==
  IF s.st # "run" THEN s
  ELSE LET bc1 == s.bc + 1
           widen == bc1 = 20
           raise == widen /\ s.ec = 10
           lo1 == IF widen /\ ~(s.last > 0) THEN s.lo - PIUnit ELSE s.lo
           hi1 == IF widen /\ s.last > 0 THEN s.hi + PIUnit ELSE s.hi
           mid == lo1 + (hi1 - lo1) \div 2
           c == sgn(mid) IN
       IF raise THEN [s EXCEPT !.st = "raised"]
       ELSE IF c > 0 THEN [lo |-> mid, hi |-> hi1, bc |-> IF widen THEN 0 ELSE bc1, ec |-> IF widen THEN s.ec + 1 ELSE s.ec, last |-> c, st |-> "run", res |-> 0]
       ELSE IF c < 0 THEN [lo |-> lo1, hi |-> mid, bc |-> IF widen THEN 0 ELSE bc1, ec |-> IF widen THEN s.ec + 1 ELSE s.ec, last |-> c, st |-> "run", res |-> 0]
       ELSE [lo |-> lo1, hi |-> hi1, bc |-> bc1, ec |-> s.ec, last |-> c, st |-> "done", res |-> mid]
=============================================================================
