---------------------------- MODULE Trace_Object ----------------------------
(***************************************************************************)
(* Validation of call histories recorded from real SequenceParameters      *)
(* objects against the object state machine (C15, and the state part of    *)
(* C16 / C20).  Each event is one public call at its return with its       *)
(* arguments, a digest of the reply, a digest of the reply of a freshly    *)
(* constructed twin (same sequence, sites, palette) and the projected      *)
(* state of every live object and of the shared default afterwards.        *)
(* The specification's action for the call is taken and must produce       *)
(* exactly the logged projection; a query's reply must equal its twin's.   *)
(***************************************************************************)
EXTENDS TraceBase, SeqObject
VARIABLES t, l, verdict
tvars == <<t, l, verdict, vars>>
Tr == Traces[t]
Ev == Tr.ev[l + 1]

Proj == [o \in ObjIds |-> IF objs[o].alive
                          THEN [alive |-> TRUE, seq |-> objs[o].seq, dmaxSet |-> objs[o].dmax # None, permSet |-> objs[o].perm # None,
                                sites |-> objs[o].sites, pal |-> objs[o].pal]
                          ELSE [alive |-> FALSE]]
\* logged projection: a sequence indexed by object id
Logged(e) == [o \in ObjIds |-> IF e.post.objs[o].alive
                               THEN [alive |-> TRUE, seq |-> e.post.objs[o].seq, dmaxSet |-> e.post.objs[o].dmaxSet,
                                     permSet |-> e.post.objs[o].permSet, sites |-> e.post.objs[o].sites,
                                     pal |-> [r \in Residues |-> e.post.objs[o].pal[r]]]
                               ELSE [alive |-> FALSE]]
FirstDiff(e, P, spg) ==       \* name the first differing component; P, spg: projection and shared default after the action
  IF \E o \in ObjIds : P[o].alive # Logged(e)[o].alive THEN "post-alive"
  ELSE IF \E o \in ObjIds : P[o].alive /\ P[o].seq # Logged(e)[o].seq THEN "post-sequence-changed"
  ELSE IF \E o \in ObjIds : P[o].alive /\ P[o].sites # Logged(e)[o].sites THEN "post-phosphosites"
  ELSE IF \E o \in ObjIds : P[o].alive /\ P[o].pal # Logged(e)[o].pal THEN "post-palette"
  ELSE OK
\* hidden state (cache flags, shared default) that deviates from the automaton is a conformance note, not a rejection:
\* the properties speak about replies and the stored sequence / sites / palette only
HiddenDiff(e, P, spg) ==
  IF \E o \in ObjIds : P[o].alive /\ Logged(e)[o].alive /\ (P[o].dmaxSet # Logged(e)[o].dmaxSet \/ P[o].permSet # Logged(e)[o].permSet) THEN "cache-flags"
  ELSE IF spg # e.post.spGrps THEN "shared-default" ELSE OK

Act(e) ==
  CASE e.kind = "construct" -> Construct(e.obj, e.seq)
    [] e.kind = "pure" -> QueryPure(e.obj)
    [] e.kind = "phospho" -> QueryPhospho(e.obj)
    [] e.kind = "html" -> QueryHTML(e.obj)
    [] e.kind = "derived" -> QueryDerived(e.obj)
    [] e.kind = "deltaMax" -> GetDeltaMax(e.obj, FALSE)
    [] e.kind = "deltaMaxPerm" -> GetDeltaMax(e.obj, TRUE)
    [] e.kind = "kappa" -> GetKappa(e.obj)
    [] e.kind = "kappaPhos" -> GetKappaPhos(e.obj)
    [] e.kind = "composition-default" -> GetComposition(e.obj, FALSE)
    [] e.kind = "composition-user" -> GetComposition(e.obj, TRUE)
    [] e.kind = "set_phosphosites" -> SetPhosphosites(e.obj, e.arg)
    [] e.kind = "clear_phosphosites" -> ClearPhosphosites(e.obj)
    [] e.kind = "set_palette" -> SetPalette(e.obj, e.arg)
    [] e.kind = "shuffle" -> Shuffle(e.obj, e.child, e.childseq)

TInit == t \in 1..Len(Traces) /\ l = 0 /\ verdict = <<"run">> /\ Init
Step == /\ verdict = <<"run">> /\ l < Len(Tr.ev)
        /\ Act(Ev)
        /\ LET e == Ev
               d == FirstDiff(e, Proj', shared'.spGrps)
               j == IF d # OK THEN d
                    ELSE IF IsQuery(e.kind) /\ e.reply # e.fresh THEN "reply-differs-from-fresh-object"
                    ELSE IF e.kind = "set_palette" /\ (e.accepted # ValidPalette(e.arg)) THEN "palette-acceptance"
                    ELSE IF e.kind = "html" /\ "toks" \in DOMAIN e /\ e.toks # Render(objs[e.obj].seq, objs[e.obj].pal) THEN "html-rendering"
                    ELSE IF e.kind = "phospho" /\ "sites" \in DOMAIN e /\ e.sites # objs[e.obj].sites THEN "phosphosites-reply"
                    ELSE IF e.kind = "phospho" /\ "pseq" \in DOMAIN e /\ e.pseq # PhosphoSeq(objs[e.obj].seq, objs[e.obj].sites) THEN "phosphosequence"
                    ELSE OK IN
           IF j = OK THEN /\ l' = l + 1 /\ verdict' = verdict
                          /\ (HiddenDiff(e, Proj', shared'.spGrps) # OK =>
                                PrintT(<<"NOTE", ToJson([tid |-> Tr.tid, ev |-> l + 1, what |-> HiddenDiff(e, Proj', shared'.spGrps)])>>))
           ELSE l' = l /\ verdict' = <<"reject", l + 1, j>> /\ PrintT(<<"REJ", ToJson([tid |-> Tr.tid, ev |-> l + 1, clause |-> j])>>)
        /\ t' = t
Done == /\ verdict = <<"run">> /\ l = Len(Tr.ev)
        /\ verdict' = <<"accept">> /\ PrintT(<<"ACC", ToJson([tid |-> Tr.tid, n |-> l])>>)
        /\ UNCHANGED <<t, l, vars>>
\* total verdicts: an event whose specification action is not enabled (e.g. a shuffle that changed the composition)
Guard(e) == CASE e.kind = "construct" -> TRUE
              [] e.kind = "shuffle" -> objs[e.obj].alive /\ e.child # e.obj /\ IsRearrangement(e.childseq, objs[e.obj].seq)
              [] OTHER -> objs[e.obj].alive
Stuck == /\ verdict = <<"run">> /\ l < Len(Tr.ev) /\ ~Guard(Ev)
         /\ verdict' = <<"reject", l + 1, "spec-action-not-enabled">>
         /\ PrintT(<<"REJ", ToJson([tid |-> Tr.tid, ev |-> l + 1, clause |-> "spec-action-not-enabled:" \o Ev.kind])>>)
         /\ UNCHANGED <<t, l, vars>>
TNext == Step \/ Done \/ Stuck
TSpec == TInit /\ [][TNext]_tvars
NoReject == verdict[1] # "reject"
\* the C15/C16/C20 state invariants hold along every recorded history as well
TraceInvariants == HistoryIndependent /\ CacheSound /\ SitesValid /\ NoRepeats /\ PaletteTotal
=============================================================================
