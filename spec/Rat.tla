--------------------------------- MODULE Rat ---------------------------------
(***************************************************************************)
(* Signed exact rationals over BigNat: [s |-> -1|0|1, n |-> BigNat,         *)
(* d |-> BigNat] with d > 0 and (s = 0 <=> n = 0).  Not reduced: equality  *)
(* is REq, never `='.                                                       *)
(***************************************************************************)
EXTENDS BigNat, Integers

RZero == [s |-> 0, n |-> BZero, d |-> BOne]
ROne  == [s |-> 1, n |-> BOne,  d |-> BOne]
RMk(s, n, d) == IF n = BZero THEN [s |-> 0, n |-> BZero, d |-> d] ELSE [s |-> s, n |-> n, d |-> d]

IAbs(x) == IF x < 0 THEN -x ELSE x
ISgn(x) == IF x < 0 THEN -1 ELSE IF x = 0 THEN 0 ELSE 1

\* small integers
RFromInt(k) == RMk(ISgn(k), BFromNat(IAbs(k)), BOne)
RFrac(a, b) == RMk(ISgn(a) * ISgn(b), BFromNat(IAbs(a)), BFromNat(IAbs(b)))   \* b # 0
\* big numerator (limbs) with sign over small denominator
RBig(s, n, d) == RMk(s, n, d)

RNeg(a) == [a EXCEPT !.s = -a.s]
RAbs(a) == [a EXCEPT !.s = IF a.s = 0 THEN 0 ELSE 1]

RAdd(a, b) ==
  IF a.s = 0 THEN b ELSE IF b.s = 0 THEN a ELSE
  LET same == a.d = b.d          \* common denominator: keep it (sums of many terms stay small)
      x == IF same THEN a.n ELSE BMul(a.n, b.d)
      y == IF same THEN b.n ELSE BMul(b.n, a.d)
      dd == IF same THEN a.d ELSE BMul(a.d, b.d) IN
  IF a.s = b.s THEN RMk(a.s, BAdd(x, y), dd)
  ELSE LET c == BCmp(x, y) IN
       IF c = 0 THEN [s |-> 0, n |-> BZero, d |-> dd]
       ELSE IF c > 0 THEN RMk(a.s, BSub(x, y), dd) ELSE RMk(b.s, BSub(y, x), dd)
RSub(a, b) == RAdd(a, RNeg(b))
RMul(a, b) == RMk(a.s * b.s, BMul(a.n, b.n), BMul(a.d, b.d))
RDiv(a, b) == RMk(a.s * b.s, BMul(a.n, b.d), BMul(a.d, b.n))      \* b # 0

\* -1, 0, 1
RCmp(a, b) ==
  IF a.s # b.s THEN (IF a.s < b.s THEN -1 ELSE 1)
  ELSE IF a.s = 0 THEN 0
  ELSE LET c == BCmp(BMul(a.n, b.d), BMul(b.n, a.d)) IN IF a.s > 0 THEN c ELSE -c
REq(a, b) == RCmp(a, b) = 0
RLe(a, b) == RCmp(a, b) <= 0
RLt(a, b) == RCmp(a, b) < 0
RMax(a, b) == IF RLe(a, b) THEN b ELSE a
RMin(a, b) == IF RLe(a, b) THEN a ELSE b

\* A float as logged by the harness: sign and limbs of round(|x| * 10^15)
D15 == <<0, 0, 0, 1000>>
RFromFx(fx) == RMk(fx.s, fx.m, D15)
FxWellFormed(fx) == fx.s \in {-1, 0, 1} /\ BIsNat(fx.m) /\ (fx.s = 0 <=> fx.m = <<>>)

\* tolerance 10^-9 * max(1,|v|)
Eps9 == [s |-> 1, n |-> BOne, d |-> <<0, 0, 10>>]
RClose(r, v) == RLe(RAbs(RSub(r, v)), RMul(Eps9, RMax(ROne, RAbs(v))))
\* |r - v| <= 10^-9  (absolute; for boundary "either branch" decisions)
RNear(r, v) == RLe(RAbs(RSub(r, v)), Eps9)
=============================================================================
