---------------------------- MODULE MC_Alphabets ----------------------------
(***************************************************************************)
(* C12 (M): the documented partitions are partitions of the 20 residues    *)
(* into exactly `size' groups; any map that sends every residue to a       *)
(* member of its own group, constant on groups, is idempotent and acts     *)
(* residue by residue (a homomorphism for concatenation).                  *)
(***************************************************************************)
EXTENDS Profiles, TLC
VARIABLE size
Init == size \in 0..25
Next == UNCHANGED size
Spec == Init /\ [][Next]_size
Known == size \in AlphabetSizes
ExactlySizeGroups == Known => Cardinality(Partition(size)) = size
Covers == Known => UNION Partition(size) = Residues
Disjoint == Known => \A g, h \in Partition(size) : g # h => g \cap h = {}
CanonImplements == Known => ImplementsPartition(CanonMap(size), size)
Idempotent == Known => \A r \in Residues : CanonMap(size)[CanonMap(size)[r]] = CanonMap(size)[r]
Homomorphism == Known => \A a, b \in {<<"K","L">>, <<"E">>, <<>>, <<"W","Y","C","H">>} :
                   Reduce(CanonMap(size), a \o b) = Reduce(CanonMap(size), a) \o Reduce(CanonMap(size), b)
RepresentativesCount == Known => Cardinality({CanonMap(size)[r] : r \in Residues}) = size
\* coarser alphabets refine each other along the documented chain 20 > 18 > 15 > 12 and 10 > 8?  (not claimed) -- only
\* the claimed facts above are invariants
=============================================================================
