SPECIFICATION Spec
CONSTANTS
  MaxLen = 8
  EmitRecords = TRUE
  CheckDef = TRUE
INVARIANT DeltaIsDefinition
INVARIANT DeltaZeroShort
INVARIANT SentinelIffNoVariance
INVARIANT KappaWellDefined
INVARIANT KappaRangeOrK1
INVARIANT ReverseInvariant
INVARIANT InvertInvariant
INVARIANT DMaxSymmetric
INVARIANT FamilyIsArrangement
INVARIANT SCDZeroFewCharges
INVARIANT Emit
CHECK_DEADLOCK FALSE
