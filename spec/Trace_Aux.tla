------------------------------ MODULE Trace_Aux ------------------------------
(***************************************************************************)
(* Growth beyond the listed properties: auxiliary functions of the backend *)
(* Sequence object and of SequenceParameters, specified and validated the  *)
(* same way (traces recorded from the real code):                          *)
(*   phasePlotAnnotation, cumMeanHydropathy, linearDistOfHydropathy_2,     *)
(*   toString (10 tab-separated fields to 5 decimals), write_compfile.     *)
(***************************************************************************)
EXTENDS TraceBase, Patterning, Composition, Profiles
VARIABLES t, l, verdict
vars == <<t, l, verdict>>
Annotation(r) == CASE r = 1 -> "Globule/Tadpole" [] r = 2 -> "Boundary Region" [] r = 3 -> "Coils,Hairpins and Chimeras"
                   [] r = 4 -> "Negatively Charged Swollen Coils" [] r = 5 -> "Positively Charged Swollen Coils"
                   [] OTHER -> "ERROR, NOT A REAL REGION"
QRat(x) == RFrac(x[1], x[2])
Near(fxv, r, num, den) == fxv.s \in {-1, 0, 1} /\ RLe(RAbs(RSub(RFromFx(fxv), r)), RFrac(num, den))
RECURSIVE Prefix(_,_)
Prefix(seq, i) == IF i = 0 THEN 0 ELSE KDShift10[seq[i]] + Prefix(seq, i - 1)
SigmaOf(seq) == LET x == ChargePattern(seq) IN SigmaDef(NPos(x), NNeg(x), Len(x))
KappaOf(seq) == Kappa(ChargePattern(seq))
Judge(seq, e) ==
  LET N == Len(seq) IN
  CASE e.q = "annotation" -> IF e.text = Annotation(RegionDoc(Count(seq, Positive), Count(seq, Negative), N)) THEN OK ELSE "annotation"
    [] e.q = "cumhyd" -> IF Len(e.rv) = N /\ \A i \in 1..N : e.rv[i].s \in {-1,0,1} /\ RClose(RFromFx(e.rv[i]), RFrac(Prefix(seq, i), 10 * i)) THEN OK ELSE "cumulative-mean-hydropathy"
    [] e.q = "linhyd2" ->
         IF e.w > N THEN (IF e.exc THEN OK ELSE "window-longer-than-sequence-answered")
         ELSE IF e.exc THEN "profile-raised"
         ELSE LET f(i) == Q(TabWin(seq, i, i + e.w - 1, KDShift10), 10)
                  prof == ProfileDoc(f, N, e.w) IN
              IF e.pos = [j \in 1..N |-> j] /\ Len(e.rv) = N /\ \A j \in 1..N : e.rv[j].s \in {-1,0,1} /\ RClose(RFromFx(e.rv[j]), QRat(prof[j])) THEN OK ELSE "profile-hydropathy-sum"
    [] e.q = "tostring" ->
         LET x == ChargePattern(seq)
             want == << RFromInt(N), Param("fraction_negative", seq), Param("fraction_positive", seq), Param("FCR", seq), Param("NCPR", seq),
                        SigmaOf(seq), Delta(x), DeltaMaxOf(x), KappaOf(seq), Param("mean_hydropathy", seq) >> IN
         IF Len(e.fields) # 10 THEN "tostring-fields"
         ELSE IF \A i \in 1..10 : Near(e.fields[i], want[i], 6, 1000000) THEN OK
         ELSE IF ~KappaInRange(KappaOf(seq)) /\ \A i \in (1..10) \ {9} : Near(e.fields[i], want[i], 6, 1000000) THEN OK   \* K1 sequences: kappa out of range is C01's finding
         ELSE "tostring-values"
    [] e.q = "compfile" ->
         IF Len(e.rows) # 20 THEN "compfile-rows"
         ELSE IF \A i \in 1..20 : e.rows[i].res = ResidueOrder[i] /\ Near(e.rows[i].v, AAFraction(seq, ResidueOrder[i]), 5001, 1000000) THEN OK ELSE "compfile-values"
    [] OTHER -> "machinery:unknown-event"
Tr == Traces[t]
Init == t \in 1..Len(Traces) /\ l = 0 /\ verdict = <<"run">>
Step == /\ verdict = <<"run">> /\ l < Len(Tr.ev)
        /\ LET j == Judge(Tr.seq, Tr.ev[l+1]) IN
           IF j = OK THEN l' = l + 1 /\ verdict' = verdict
           ELSE l' = l /\ verdict' = <<"reject", l + 1, j>> /\ PrintT(<<"REJ", ToJson([tid |-> Tr.tid, ev |-> l + 1, clause |-> j])>>)
        /\ t' = t
Done == /\ verdict = <<"run">> /\ l = Len(Tr.ev)
        /\ verdict' = <<"accept">> /\ PrintT(<<"ACC", ToJson([tid |-> Tr.tid, n |-> l])>>)
        /\ UNCHANGED <<t, l>>
Next == Step \/ Done
Spec == Init /\ [][Next]_vars
NoReject == verdict[1] # "reject"
=============================================================================
