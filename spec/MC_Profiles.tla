----------------------------- MODULE MC_Profiles -----------------------------
(***************************************************************************)
(* C10 bounded instance: every sequence over Alphabet up to MaxLen is a    *)
(* state; every window 1..N.                                               *)
(***************************************************************************)
EXTENDS Profiles, Patterning, TLC, Json
CONSTANTS Alphabet, MaxLen, EmitRecords
VARIABLE seq
Init == seq = <<>>
Next == Len(seq) < MaxLen /\ \E a \in Alphabet : seq' = Append(seq, a)
Spec == Init /\ [][Next]_seq
N == Len(seq)

\* the implementation's flank arithmetic places every window where the documentation says
FlanksAgree == \A w \in 1..N : FlankStartCode(N, w) = LeadDoc(w) /\ FlankEndCode(N, w) = TrailDoc(w)
                                /\ LeadDoc(w) + (N - w + 1) + TrailDoc(w) = N
CodeIsDoc == \A w \in 1..N : \A st \in Stats :
               LET f(i) == WindowStat(st, seq, i, w) IN ProfileCode(f, N, w) = ProfileDoc(f, N, w)
\* w = N: one value, the whole-sequence parameter, at the centre position
WholeWindow == N >= 1 =>
   LET pp == CountIn(seq, 1, N, Positive)  nn == CountIn(seq, 1, N, Negative)  c == 1 + (N - 1) \div 2 IN
   /\ QEq(StatProfile("NCPR", seq, N)[c], Q(pp - nn, N)) /\ QEq(StatProfile("FCR", seq, N)[c], Q(pp + nn, N))
   /\ \A j \in 1..N : j # c => StatProfile("FCR", seq, N)[j] = QZero
\* delta = mean over b in {5,6} of the mean squared deviation of the sigma profile's window entries from sigma
RQ(x) == RFrac(x[1], x[2])
RECURSIVE DevSum(_,_,_,_)
DevSum(prof, lo, hi, sg) == IF lo > hi THEN RZero
                            ELSE LET dv == RSub(sg, RQ(prof[lo])) IN RAdd(RMul(dv, dv), DevSum(prof, lo + 1, hi, sg))
DeltaFromProfiles ==
  N >= 1 =>
  LET x == ChargePattern(seq)
      sg == SigmaDef(NPos(x), NNeg(x), N)
      form(b) == IF N < b THEN RZero
                 ELSE RMul(DevSum(StatProfile("sigma", seq, b), LeadDoc(b) + 1, LeadDoc(b) + N - b + 1, sg), RFrac(1, N - b + 1))
  IN REq(Delta(x), RMul(RAdd(form(5), form(6)), RFrac(1, 2)))

Rec == [seq |-> seq,
        prof |-> [w \in 1..N |-> [st \in Stats |-> StatProfile(st, seq, w)]],
        comp |-> [w \in 1..N |-> [g \in 1..Len(DefaultGroups) |-> GroupProfile(seq, w, DefaultGroups[g])]]]
Emit == (EmitRecords /\ N >= 1) => PrintT(<<"REC", ToJson(Rec)>>)
=============================================================================
