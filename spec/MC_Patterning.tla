---------------------------- MODULE MC_Patterning ----------------------------
(***************************************************************************)
(* Bounded instance: every charge pattern over {+,-,0} up to length MaxLen *)
(* is a state (Init = empty, Next = append), so the workers share the      *)
(* cases.  Invariants are the design-level properties (M); Emit prints the *)
(* expected observables of every state for replay into the real code (G).  *)
(***************************************************************************)
EXTENDS Patterning, TLC, Json
CONSTANTS MaxLen, EmitRecords, CheckDef
VARIABLE pat
vars == <<pat>>

Init == pat = <<>>
Next == Len(pat) < MaxLen /\ \E c \in {1, -1, 0} : pat' = Append(pat, c)
Spec == Init /\ [][Next]_vars

p == NPos(pat)
n == NNeg(pat)
z == NNeut(pat)
dn == DeltaNum(pat)
mn == DeltaMaxNum(p, n, z)

\* C02 (M): the scaled integer form is the definition
DeltaIsDefinition == (CheckDef /\ Len(pat) >= 1) => REq(Delta(pat), DeltaDef(pat))
DeltaZeroShort == Len(pat) <= 4 => dn = BZero
\* C01 (M)
SentinelIffNoVariance == (mn = BZero) => (dn = BZero)      \* and every arrangement is a state of this run
KappaWellDefined == (p + n > 0 /\ mn # BZero) => REq(Kappa(pat), Clamp(RMk(1, dn, mn)))
KappaRange == KappaInRange(Kappa(pat))                     \* violated by the heuristic family: finding K1
\* K1 as a class: the only way out of range is delta > 1.1 * (family maximum)
KappaRangeOrK1 == KappaInRange(Kappa(pat)) \/ BLe(BMulSmall(mn, 11), BMulSmall(dn, 10))
\* C05 (M)
ReverseInvariant == LET r == Rev(pat) IN DeltaNum(r) = dn /\ \A d \in 1..(Len(pat)-1) : SCDCoeff(r, d) = SCDCoeff(pat, d)
InvertInvariant  == LET r == Inv(pat) IN DeltaNum(r) = dn /\ \A d \in 1..(Len(pat)-1) : SCDCoeff(r, d) = SCDCoeff(pat, d)
DMaxSymmetric == DeltaMaxNum(n, p, z) = mn
\* C03 (M)
FamilyIsArrangement == \A c \in Family(p, n, z) : Len(c) = Len(pat) /\ NPos(c) = p /\ NNeg(c) = n
\* C07 (M)
SCDZeroFewCharges == p + n < 2 => \A d \in 1..(Len(pat)-1) : SCDCoeff(pat, d) = 0

Rec == [x |-> pat, dn |-> dn, mn |-> mn,
        dd |-> IF p + n = 0 THEN BOne ELSE DeltaDenOf(Len(pat), p, n),
        ks |-> Kappa(pat).s, kn |-> Kappa(pat).n, kd |-> Kappa(pat).d,
        scd |-> [d \in 1..(Len(pat)-1) |-> SCDCoeff(pat, d)]]
Emit == (EmitRecords /\ Len(pat) >= 1) => PrintT(<<"REC", ToJson(Rec)>>)
=============================================================================
