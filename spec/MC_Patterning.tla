---------------------------- MODULE MC_Patterning ----------------------------
(***************************************************************************)
(* Bounded instance: every charge pattern over {+,-,0} up to length MaxLen *)
(* is a state (Init = empty, Next = append), so the workers share the      *)
(* cases.  Invariants are the design-level properties (M); Emit prints the *)
(* expected observables of every state for replay into the real code (G).  *)
(***************************************************************************)
EXTENDS Patterning, TLC, Json
CONSTANTS MaxLen, EmitRecords, CheckDef
VARIABLES pat, d      \* d: derived values of pat, kept in the state so they are computed once
vars == <<pat, d>>

Derive(x) == [dn |-> DeltaNum(x), mn |-> DeltaMaxNum(NPos(x), NNeg(x), NNeut(x)),
              msym |-> DeltaMaxNum(NNeg(x), NPos(x), NNeut(x)),
              scd |-> [k \in 1..(Len(x)-1) |-> SCDCoeff(x, k)]]
Init == pat = <<>> /\ d = Derive(<<>>)
Next == Len(pat) < MaxLen /\ \E c \in {1, -1, 0} : pat' = Append(pat, c) /\ d' = Derive(Append(pat, c))
Spec == Init /\ [][Next]_vars

p == NPos(pat)
n == NNeg(pat)
z == NNeut(pat)
dn == d.dn
mn == d.mn
KappaOfState == IF mn = BZero THEN KappaSentinel ELSE Clamp(RMk(1, dn, mn))

\* C02 (M): the scaled integer form is the definition
DeltaIsDefinition == (CheckDef /\ Len(pat) >= 1) => REq(Delta(pat), DeltaDef(pat))
DeltaZeroShort == Len(pat) <= 4 => dn = BZero
\* the BigNat evaluation used above LongChain residues is the same number as the integer one
LongChainFormSame == DeltaNumBig(pat) = DeltaNumSmall(pat) /\ dn = DeltaNumSmall(pat)
\* C01 (M)
SentinelIffNoVariance == (mn = BZero) => (dn = BZero)      \* and every arrangement is a state of this run
KappaWellDefined == (p + n > 0 /\ mn # BZero) => (KappaOfState.s = 1 \/ dn = BZero)
KappaRange == KappaInRange(KappaOfState)                     \* violated by the heuristic family: finding K1
\* K1 as a class: the only way out of range is delta > 1.1 * (family maximum)
KappaRangeOrK1 == KappaInRange(KappaOfState) \/ BLe(BMulSmall(mn, 11), BMulSmall(dn, 10))
\* C05 (M)
ReverseInvariant == LET r == Rev(pat) IN DeltaNum(r) = dn /\ \A k \in 1..(Len(pat)-1) : SCDCoeff(r, k) = d.scd[k]
InvertInvariant  == LET r == Inv(pat) IN DeltaNum(r) = dn /\ \A k \in 1..(Len(pat)-1) : SCDCoeff(r, k) = d.scd[k]
DMaxSymmetric == d.msym = mn
\* C03 (M)
FamilyIsArrangement == \A c \in Family(p, n, z) : Len(c) = Len(pat) /\ NPos(c) = p /\ NNeg(c) = n
\* C07 (M)
SCDZeroFewCharges == p + n < 2 => \A k \in 1..(Len(pat)-1) : d.scd[k] = 0

Rec == [x |-> pat, dn |-> dn, mn |-> mn,
        dd |-> IF p + n = 0 THEN BOne ELSE DeltaDenOf(Len(pat), p, n),
        ks |-> KappaOfState.s, kn |-> KappaOfState.n, kd |-> KappaOfState.d,
        scd |-> d.scd]
Emit == (EmitRecords /\ Len(pat) >= 1) => PrintT(<<"REC", ToJson(Rec)>>)
=============================================================================
