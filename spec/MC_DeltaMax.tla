----------------------------- MODULE MC_DeltaMax -----------------------------
(***************************************************************************)
(* Bounded instance over compositions: every (p, n, z) with p+n+z <= MaxN  *)
(* (plus, when Slab, the boundary slab z in 16..19, p,n <= 2 around the     *)
(* 17/18-neutral regime switch) is a state.  C03 design-level invariants.  *)
(***************************************************************************)
EXTENDS Patterning, TLC, Json
CONSTANTS MaxN, Slab
VARIABLES c,      \* <<p, n, z>>
          d       \* derived (a function of c, kept in the state so that it is computed once)
vars == <<c, d>>
InDomain(p, n, z) == p + n + z <= MaxN \/ (Slab /\ z \in 15..19 /\ ((p <= 2 /\ n <= 8) \/ (n <= 2 /\ p <= 8)))
Derive(pp, nn, zz) ==
  LET fam == Family(pp, nn, zz)
      nums == [a \in fam |-> DeltaNum(a)]
      m == BMaxOver({nums[a] : a \in fam})
  IN [mn |-> m, arg |-> CHOOSE a \in fam : nums[a] = m, alt |-> DeltaMaxNumAlt(pp, nn, zz),
      mirror |-> \A a \in fam : DeltaNum(Rev(a)) = nums[a] /\ DeltaNum(Inv(a)) = nums[a],
      sym |-> DeltaMaxNum(nn, pp, zz)]
\* the slab is not connected to the small compositions by single increments: it has its own root
Init == \/ c = <<0, 0, 0>> /\ d = Derive(0, 0, 0)
        \/ Slab /\ c = <<0, 0, 15>> /\ d = Derive(0, 0, 15)
\* canonical generation (first p, then n, then z from the root's z) so that every composition is derived exactly once
RootZ == IF c[3] >= 15 /\ c[1] + c[2] + c[3] > MaxN THEN 15 ELSE 0
MayStep(k) == CASE k = 1 -> c[2] = 0 /\ c[3] = RootZ [] k = 2 -> c[3] = RootZ [] k = 3 -> TRUE
Next == \E k \in 1..3 : LET e == [c EXCEPT ![k] = @ + 1] IN
          MayStep(k) /\ InDomain(e[1], e[2], e[3]) /\ c' = e /\ d' = Derive(e[1], e[2], e[3])
Spec == Init /\ [][Next]_vars
p == c[1]
n == c[2]
z == c[3]
mn == d.mn
Argmax == d.arg

DMaxSymmetric == d.sym = mn
\* the maximum is attained by a member of the family, which is an arrangement of the composition
PermAttains == p + n + z >= 1 => (DeltaNum(Argmax) = mn /\ Len(Argmax) = p + n + z /\ NPos(Argmax) = p /\ NNeg(Argmax) = n)
RegimePartition == Regime(p, n, z) \in {"none", "single", "noneutral", "many", "general"}
                   /\ (Regime(p, n, z) = "many" => z >= 18 /\ p > 0 /\ n > 0)
                   /\ (Regime(p, n, z) = "general" => z \in 1..17 /\ p > 0 /\ n > 0)
\* the family is closed under reversal+inversion up to delta (mirror images have the same delta)
FamilyMirror == d.mirror
\* with fewer than 5 residues, or no charge, nothing can vary
ZeroWhenTrivial == (p + n = 0 \/ p + n + z <= 4) => mn = BZero
\* at a block-length tie the two readings of "the minority block" agree when p = n (mirror images)
TieAgreesNoNeutral == (z = 0 /\ p = n) => d.alt = mn

Rec == [p |-> p, n |-> n, z |-> z, mn |-> mn, alt |-> d.alt,
        dd |-> IF p + n = 0 THEN BOne ELSE DeltaDenOf(p + n + z, p, n), arg |-> Argmax, regime |-> Regime(p, n, z)]
Emit == p + n + z >= 1 => PrintT(<<"REC", ToJson(Rec)>>)
=============================================================================
