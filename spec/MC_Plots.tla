------------------------------ MODULE MC_Plots ------------------------------
(***************************************************************************)
(* C19 (M): the five polygons read from the real figure (constants, scaled *)
(* by Scale) against the region rule: for every composition (p, n, z) up   *)
(* to MaxN the marker (p/N, n/N) lies in the closed polygon of its region  *)
(* and in the interior of no other polygon; the polygons cover the         *)
(* composition triangle.                                                   *)
(***************************************************************************)
EXTENDS Plots, Region, TLC
CONSTANTS MaxN, Scale, Polys
VARIABLE c
Init == c = <<0, 0, 1>> \/ c = <<1, 0, 0>> \/ c = <<0, 1, 0>>
Next == \E k \in 1..3 : c[1] + c[2] + c[3] < MaxN /\ c' = [c EXCEPT ![k] = @ + 1]
Spec == Init /\ [][Next]_c
N == c[1] + c[2] + c[3]
Pt == <<Scale * c[1], Scale * c[2]>>                                   \* marker scaled by Scale * N
Poly(r) == [i \in 1..Len(Polys[r]) |-> <<Polys[r][i][1] * N, Polys[r][i][2] * N>>]
Own == RegionDoc(c[1], c[2], N)
MarkerInOwnRegion == InClosedI(Poly(Own), Pt)
NotInsideAnother == \A r \in 1..5 : r # Own => ~InInteriorI(Poly(r), Pt)
FivePolygons == Len(Polys) = 5
=============================================================================
