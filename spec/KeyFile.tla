------------------------------- MODULE KeyFile -------------------------------
(***************************************************************************)
(* Growth beyond the listed properties: the key-file parser of the         *)
(* (future) command-line front end, backend/keyfile.py, as a two-phase     *)
(* machine over code points.  Phase 1 folds the lines into a keyword       *)
(* table; phase 2 validates the table keyword by keyword in a fixed order. *)
(* Platform facts enter as data: sp (whitespace), floatable (the value     *)
(* strings Python's float() accepts), isfile (paths that are files) and    *)
(* the parse result of the sequence file (SeqInput.ParseFile, C14).        *)
(* Modelled as coded, including one oddity: WL_TYPE's default is assigned  *)
(* and then overwritten by the (empty) value, so it stays empty.           *)
(***************************************************************************)
EXTENDS SeqInput
HASH == 35
Keywords == <<"SEQFILE", "OUTDIR", "FREEZE_FILE", "BIN_MIN", "BIN_MAX", "NUMBER_OF_BINS", "FLATCHECK_FREQ", "CONVERGENCE",
              "FLATNESS_CRITERION", "WL_TYPE">>
Numeric == {"BIN_MIN", "BIN_MAX", "NUMBER_OF_BINS", "FLATCHECK_FREQ", "CONVERGENCE", "FLATNESS_CRITERION"}
\* keyword names as code points are supplied by the harness (names[k] = code points of Keywords[k])
RECURSIVE SplitOn(_,_,_)
SplitOn(l, c, cur) == IF l = <<>> THEN <<cur>>
                      ELSE IF Head(l) = c THEN <<cur>> \o SplitOn(Tail(l), c, <<>>)
                      ELSE SplitOn(Tail(l), c, Append(cur, Head(l)))
UpToHash(l) == IF \E i \in 1..Len(l) : l[i] = HASH
               THEN SubSeq(l, 1, (CHOOSE i \in 1..Len(l) : l[i] = HASH /\ \A j \in 1..(i-1) : l[j] # HASH) - 1) ELSE l
EmptyTable == [kw \in {Keywords[i] : i \in 1..Len(Keywords)} |-> <<>>]
KwIndex(tok, names) == IF \E i \in 1..Len(names) : names[i] = tok THEN CHOOSE i \in 1..Len(names) : names[i] = tok ELSE 0
\* phase 1: st = [tab, ok]
KeyLine(st, raw, sp, names) ==
  LET l0 == Strip(raw, sp) IN
  IF ~st.ok \/ l0 = <<>> \/ l0[1] = HASH THEN st
  ELSE LET l == Strip(UpToHash(l0), sp)
           toks == SplitOn(l, SPACE, <<>>)
           ki == KwIndex(Strip(toks[1], sp), names) IN
       IF ki = 0 THEN st                                                    \* unexpected keyword: warning, ignored
       ELSE IF Len(toks) = 2 THEN [st EXCEPT !.tab[Keywords[ki]] = Strip(toks[2], sp)]
       ELSE [st EXCEPT !.ok = FALSE]                                        \* keyword without exactly one value
RECURSIVE KeyLines(_,_,_,_)
KeyLines(st, ls, sp, names) == IF ls = <<>> THEN st ELSE KeyLines(KeyLine(st, Head(ls), sp, names), Tail(ls), sp, names)
\* phase 2: accepted iff every keyword validates; result table with defaults marked <<-1>>
Default == <<-1>>
Validate(tab, floatable, isfile, seqok, wltypes) ==
  /\ tab["SEQFILE"] # <<>> /\ tab["SEQFILE"] \in isfile /\ seqok
  /\ tab["OUTDIR"] # <<>>
  /\ (tab["FREEZE_FILE"] = <<>> \/ tab["FREEZE_FILE"] \in isfile)
  /\ \A kw \in Numeric : tab[kw] = <<>> \/ tab[kw] \in floatable
  /\ (tab["WL_TYPE"] = <<>> \/ tab["WL_TYPE"] \in wltypes)
Result(tab) == [kw \in DOMAIN tab |-> IF kw \in Numeric /\ tab[kw] = <<>> THEN Default ELSE tab[kw]]
ParseKeyFile(cps, sp, names, floatable, isfile, seqok, wltypes) ==
  LET st == KeyLines([tab |-> EmptyTable, ok |-> TRUE], Lines(cps), sp, names) IN
  IF st.ok /\ Validate(st.tab, floatable, isfile, seqok, wltypes) THEN [ok |-> TRUE, tab |-> Result(st.tab)]
  ELSE [ok |-> FALSE, tab |-> EmptyTable]
=============================================================================
