------------------------------ MODULE FreezeFile ------------------------------
(***************************************************************************)
(* Growth beyond the listed properties: WangLandauMachine.parseFreezeFile, *)
(* the parser of "freeze files" (regions a Wang-Landau run must not        *)
(* permute), as a fold over the lines of the file.  Two readings:          *)
(*                                                                         *)
(*   ParseFreeze(.., "doc")   what the method's documentation shows: hash  *)
(*       comments, inline comments, blank lines, "a b" freezes the 1-based *)
(*       positions a..b (its example "1 1" freezes position 1), a > b is   *)
(*       an error;                                                         *)
(*   ParseFreeze(.., "coded") the method as written, with its deviations   *)
(*       named: BlankLineCrashes (line[0] of an empty string),             *)
(*       BoundsComparedAsText ("9 10" is refused, "10 9" is accepted and   *)
(*       freezes nothing), SingleSpaceOnly ("3  5" and "3<TAB>5" fail in   *)
(*       int('') / as one column).                                         *)
(*                                                                         *)
(* Platform facts enter as data: sp (whitespace code points) and the       *)
(* tokens Python's int() accepts with their values (ints: <<token, v>>).   *)
(* The result is [ok, frozen] with frozen a set of 0-based indices.        *)
(***************************************************************************)
EXTENDS KeyFile
IntOf(tok, ints) == IF \E pr \in ints : pr[1] = tok THEN (CHOOSE pr \in ints : pr[1] = tok)[2] ELSE -1000000
IsInt(tok, ints) == \E pr \in ints : pr[1] = tok
\* Python's str comparison a > b: lexicographic on code points
RECURSIVE TextGreater(_,_)
TextGreater(a, b) == IF a = <<>> THEN FALSE ELSE IF b = <<>> THEN TRUE
                     ELSE IF Head(a) # Head(b) THEN Head(a) > Head(b) ELSE TextGreater(Tail(a), Tail(b))
NonEmpty(toks) == SelectSeq(toks, LAMBDA x : x # <<>>)
RECURSIVE SplitWs(_,_,_)
SplitWs(l, sp, cur) == IF l = <<>> THEN <<cur>>
                       ELSE IF Head(l) \in sp THEN <<cur>> \o SplitWs(Tail(l), sp, <<>>)
                       ELSE SplitWs(Tail(l), sp, Append(cur, Head(l)))
Range0(a, b) == {i \in (a - 1)..(b - 1) : TRUE}          \* 1-based a..b as 0-based indices; empty when b < a

FreezeLine(st, raw, sp, ints, mode) ==
  LET l0 == Strip(raw, sp) IN
  IF ~st.ok THEN st
  ELSE IF l0 = <<>> THEN (IF mode = "coded" THEN [st EXCEPT !.ok = FALSE, !.why = "BlankLineCrashes"] ELSE st)
  ELSE IF l0[1] = HASH THEN st
  ELSE LET l == Strip(UpToHash(l0), sp)
           cols == IF mode = "coded" THEN SplitOn(l, SPACE, <<>>) ELSE NonEmpty(SplitWs(l, sp, <<>>)) IN
       IF Len(cols) < 2 THEN [st EXCEPT !.ok = FALSE, !.why = "fewer-than-two-columns"]
       ELSE IF mode = "coded" /\ TextGreater(cols[1], cols[2]) THEN [st EXCEPT !.ok = FALSE, !.why = "first-after-second"]
       ELSE IF ~IsInt(cols[1], ints) \/ ~IsInt(cols[2], ints) THEN [st EXCEPT !.ok = FALSE, !.why = "not-an-integer"]
       ELSE IF mode = "doc" /\ IntOf(cols[1], ints) > IntOf(cols[2], ints) THEN [st EXCEPT !.ok = FALSE, !.why = "first-after-second"]
       ELSE [st EXCEPT !.frozen = @ \cup Range0(IntOf(cols[1], ints), IntOf(cols[2], ints))]
RECURSIVE FreezeLines(_,_,_,_,_)
FreezeLines(st, ls, sp, ints, mode) ==
  IF ls = <<>> THEN st ELSE FreezeLines(FreezeLine(st, Head(ls), sp, ints, mode), Tail(ls), sp, ints, mode)
\* SeqInput.Lines yields the lines as Python's file iteration does (no final empty line after a trailing line end)
FileLines(cps) == Lines(cps)
ParseFreeze(cps, sp, ints, mode) ==
  LET st == FreezeLines([ok |-> TRUE, frozen |-> {}, why |-> ""], FileLines(cps), sp, ints, mode) IN
  IF st.ok THEN st ELSE [st EXCEPT !.frozen = {}]
=============================================================================
