---------------------------- MODULE Trace_KeyFile ----------------------------
(* Validation of recorded KeyFile(filename) constructions against KeyFile.ParseKeyFile. *)
EXTENDS TraceBase, KeyFile
VARIABLES t, l, verdict
vars == <<t, l, verdict>>
SetOf(sq) == {sq[i] : i \in 1..Len(sq)}
Sp == SetOf(Input.space)
Judge(e) ==
  LET r == ParseKeyFile(e.cps, Sp, Input.names, SetOf(e.floatable), SetOf(e.isfile), e.seqok, SetOf(Input.wltypes)) IN
  IF r.ok # e.ok THEN (IF e.ok THEN "accepted-invalid-keyfile" ELSE "rejected-valid-keyfile")
  ELSE IF ~e.ok THEN OK
  ELSE IF \E i \in 1..Len(Keywords) : e.tab[Keywords[i]] # r.tab[Keywords[i]] THEN "keyword-table-differs"
  ELSE OK
Tr == Traces[t]
Init == t \in 1..Len(Traces) /\ l = 0 /\ verdict = <<"run">>
Step == /\ verdict = <<"run">> /\ l < Len(Tr.ev)
        /\ LET j == Judge(Tr.ev[l+1]) IN
           IF j = OK THEN l' = l + 1 /\ verdict' = verdict
           ELSE l' = l /\ verdict' = <<"reject", l + 1, j>> /\ PrintT(<<"REJ", ToJson([tid |-> Tr.tid, ev |-> l + 1, clause |-> j])>>)
        /\ t' = t
Done == /\ verdict = <<"run">> /\ l = Len(Tr.ev)
        /\ verdict' = <<"accept">> /\ PrintT(<<"ACC", ToJson([tid |-> Tr.tid, n |-> l])>>)
        /\ UNCHANGED <<t, l>>
Next == Step \/ Done
Spec == Init /\ [][Next]_vars
NoReject == verdict[1] # "reject"
=============================================================================
