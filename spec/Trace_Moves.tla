----------------------------- MODULE Trace_Moves -----------------------------
(***************************************************************************)
(* Validation of recorded move chains (C17).  Each event is one backend    *)
(* move called on a real object with a recording RNG: the parent sequence, *)
(* the frozen set, the draws the code made, what came back and the child's *)
(* own charge bookkeeping.  The specification's move is replayed on the    *)
(* logged draws and must produce the same child from the same number of    *)
(* draws; the postconditions of the statement are then checked on it.      *)
(***************************************************************************)
EXTENDS TraceBase, Moves
VARIABLES t, l, verdict
vars == <<t, l, verdict>>
SetOf(sq) == {sq[i] : i \in 1..Len(sq)}

\* the clauses of the statement, on what the real move returned
Judge(e) ==
  LET fz == SetOf(e.frozen)
      K2 == e.move \in {"permute_block_swap", "permute_cluster_charges"}
  IN IF e.parentafter # e.parent \/ e.parentcpafter # ChargePattern(e.parent) THEN "parent-altered"
     ELSE IF e.st = "exc" THEN (IF e.move \in {"full_shuffle", "swapRandChargeRes", "swapRes"} THEN "move-failed" ELSE OK)
     ELSE IF e.st \in {"budget", "self"} THEN OK
     ELSE IF ~Rearrangement(e.parent, e.child) THEN "not-a-rearrangement"
     ELSE IF ~K2 /\ ~FrozenKept(e.parent, e.child, fz) THEN "frozen-position-changed"
     ELSE IF e.childcp # ChargePattern(e.child) THEN "child-charge-bookkeeping"
     ELSE IF Len(e.childcp) # Len(e.child) \/ e.childlen # Len(e.child) THEN "child-length"
     ELSE IF e.dmax # "unset" /\ ~RClose(RFromFx(e.dmaxfx), DeltaMaxOf(ChargePattern(e.child))) THEN "carried-deltamax-wrong"
     ELSE IF K2 /\ ~FrozenKept(e.parent, e.child, fz) THEN (IF e.move = "permute_block_swap" THEN "known:K2a" ELSE "known:K2b")
     ELSE OK
\* conformance with the specification's transcription of the move on the logged draws: which child a given
\* draw produces is not part of the statement, so a deviation is a note, not a rejection
Conf(e) ==
  LET out == Move(e.move, e.parent, SetOf(e.frozen), e.tape) IN
  IF out.st = "baddraw" THEN "draws-outside-the-specification's-range"
  ELSE IF e.st = "exc" THEN (IF out.st \in {"error", "more"} THEN OK ELSE "raised-where-the-specification-returns")
  ELSE IF e.st = "budget" THEN (IF out.st = "more" THEN OK ELSE "draw-budget-exhausted-where-the-specification-returns")
  ELSE IF e.st = "self" THEN (IF out.st = "self" THEN OK ELSE "returned-parent-itself")
  ELSE IF out.st \notin {"child", "tie"} THEN "specification-does-not-return-a-child"
  ELSE IF out.used # Len(e.tape) THEN "draws-differ"
  ELSE IF out.seq # e.child THEN "child-differs-from-specification"
  ELSE OK

\* the transcription is replayed on sequences up to this length and tapes up to three times this many draws only (it is a note, never a verdict, and costs a pass over the
\* sequence per draw); the statement's clauses above are judged at every length
ConfBound == 200
Tr == Traces[t]
Init == t \in 1..Len(Traces) /\ l = 0 /\ verdict = <<"run">>
Step == /\ verdict = <<"run">> /\ l < Len(Tr.ev)
        /\ LET j == Judge(Tr.ev[l+1]) IN
           IF j = OK \/ IsKnown(j) THEN
                /\ l' = l + 1 /\ verdict' = verdict
                /\ (IsKnown(j) => PrintT(<<"KNOWN", ToJson([tid |-> Tr.tid, ev |-> l + 1, id |-> j])>>))
                /\ ((Len(Tr.ev[l+1].parent) <= ConfBound /\ Len(Tr.ev[l+1].tape) <= 3 * ConfBound /\ Conf(Tr.ev[l+1]) # OK) => PrintT(<<"NOTE", ToJson([tid |-> Tr.tid, ev |-> l + 1, what |-> Conf(Tr.ev[l+1])])>>))
           ELSE l' = l /\ verdict' = <<"reject", l + 1, j>> /\ PrintT(<<"REJ", ToJson([tid |-> Tr.tid, ev |-> l + 1, clause |-> j])>>)
        /\ t' = t
Done == /\ verdict = <<"run">> /\ l = Len(Tr.ev)
        /\ verdict' = <<"accept">> /\ PrintT(<<"ACC", ToJson([tid |-> Tr.tid, n |-> l])>>)
        /\ UNCHANGED <<t, l>>
Next == Step \/ Done
Spec == Init /\ [][Next]_vars
NoReject == verdict[1] # "reject"
=============================================================================
