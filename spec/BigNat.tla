------------------------------- MODULE BigNat -------------------------------
(***************************************************************************)
(* Arbitrary-precision naturals for TLC (whose integers are 32-bit).       *)
(* A natural is a little-endian sequence of limbs in base 10^4 without a   *)
(* leading (= last) zero limb, so the representation is canonical and `='  *)
(* is numeric equality.  Zero is the empty sequence.                       *)
(***************************************************************************)
EXTENDS Integers, Sequences

BASE == 10000
BZero == <<>>
BOne  == <<1>>

RECURSIVE BFromNat(_)
BFromNat(n) == IF n = 0 THEN <<>> ELSE <<n % BASE>> \o BFromNat(n \div BASE)

RECURSIVE BAddC(_,_,_)
BAddC(a, b, c) ==
  IF a = <<>> /\ b = <<>> THEN (IF c = 0 THEN <<>> ELSE <<c>>)
  ELSE LET x == IF a = <<>> THEN 0 ELSE Head(a)
           y == IF b = <<>> THEN 0 ELSE Head(b)
           s == x + y + c
       IN <<s % BASE>> \o BAddC(IF a = <<>> THEN a ELSE Tail(a),
                                IF b = <<>> THEN b ELSE Tail(b), s \div BASE)
BAdd(a, b) == BAddC(a, b, 0)

RECURSIVE BStrip(_)
BStrip(a) == IF a = <<>> THEN a
             ELSE IF a[Len(a)] = 0 THEN BStrip(SubSeq(a, 1, Len(a)-1)) ELSE a

\* a - b for a >= b
RECURSIVE BSubC(_,_,_)
BSubC(a, b, c) ==
  IF a = <<>> THEN <<>>
  ELSE LET y == IF b = <<>> THEN 0 ELSE Head(b)
           d == Head(a) - y - c
       IN IF d < 0 THEN <<d + BASE>> \o BSubC(Tail(a), IF b = <<>> THEN b ELSE Tail(b), 1)
                   ELSE <<d>> \o BSubC(Tail(a), IF b = <<>> THEN b ELSE Tail(b), 0)
BSub(a, b) == BStrip(BSubC(a, b, 0))

RECURSIVE BMulSmallC(_,_,_)
BMulSmallC(a, k, c) ==            \* 0 < k < BASE
  IF a = <<>> THEN BFromNat(c)
  ELSE LET s == Head(a) * k + c IN <<s % BASE>> \o BMulSmallC(Tail(a), k, s \div BASE)
BMulSmall(a, k) == IF k = 0 THEN <<>> ELSE BMulSmallC(a, k, 0)

RECURSIVE BMul(_,_)
BMul(a, b) == IF b = <<>> \/ a = <<>> THEN <<>>
              ELSE LET r == BMul(a, Tail(b)) IN
                   BAdd(BMulSmall(a, Head(b)), IF r = <<>> THEN <<>> ELSE <<0>> \o r)

\* multiply by any TLC natural
BMulNat(a, k) == IF k < BASE THEN BMulSmall(a, k) ELSE BMul(a, BFromNat(k))

RECURSIVE BCmpFrom(_,_,_)
BCmpFrom(a, b, i) == IF i = 0 THEN 0 ELSE IF a[i] < b[i] THEN -1
                     ELSE IF a[i] > b[i] THEN 1 ELSE BCmpFrom(a, b, i-1)
\* -1, 0, 1
BCmp(a, b) == IF Len(a) < Len(b) THEN -1 ELSE IF Len(a) > Len(b) THEN 1
              ELSE BCmpFrom(a, b, Len(a))
BLe(a, b) == BCmp(a, b) <= 0
BLt(a, b) == BCmp(a, b) < 0

RECURSIVE BPow10(_)
\* 10^k
BPow10(k) == IF k >= 4 THEN <<0>> \o BPow10(k - 4)
             ELSE IF k = 0 THEN <<1>> ELSE IF k = 1 THEN <<10>> ELSE IF k = 2 THEN <<100>> ELSE <<1000>>

RECURSIVE BPow(_,_)
BPow(a, k) == IF k = 0 THEN BOne ELSE BMul(a, BPow(a, k-1))

\* a well-formed natural (used to validate decoded input)
BIsNat(a) == /\ \A i \in 1..Len(a) : a[i] \in 0..(BASE-1)
             /\ (a # <<>> => a[Len(a)] # 0)
=============================================================================
