----------------------------- MODULE WangLandau -----------------------------
(***************************************************************************)
(* The normal Wang-Landau loop over kappa bins (C18): the state machine of *)
(* module WLCore together with recursive definitions of its two arithmetic *)
(* parameters.  Every TLC configuration over this module substitutes       *)
(*     Pow2N <- Pow2NRec     SumOver <- SumOverRec                         *)
(* (ProofsWL reasons about WLCore for arbitrary bins and run lengths).     *)
(***************************************************************************)
EXTENDS WLCore
RECURSIVE Pow2NRec(_)
Pow2NRec(n) == IF n <= 0 THEN 1 ELSE 2 * Pow2NRec(n - 1)
RECURSIVE SumOverRec(_,_)
SumOverRec(f, S) == IF S = {} THEN 0 ELSE LET x == CHOOSE x \in S : TRUE IN f[x] + SumOverRec(f, S \ {x})
=============================================================================
