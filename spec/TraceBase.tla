------------------------------ MODULE TraceBase ------------------------------
(***************************************************************************)
(* Batch trace validation.  The harness writes a JSON file                  *)
(*   { "traces": [ { "tid": k, ..., "ev": [ event, ... ] }, ... ], ... }   *)
(* recorded from the real code: one event per public call at its return.   *)
(* Each trace is stepped event by event; a trace is accepted iff every     *)
(* event is matched by the specification, otherwise it is rejected at the  *)
(* first unmatched event and the failing clause is named.  Verdicts are    *)
(* printed (one line per trace) and `NoReject' lets TLC itself report a    *)
(* rejected trace as an invariant violation.                               *)
(***************************************************************************)
EXTENDS Integers, Sequences, TLC, Json, IOUtils

Input  == JsonDeserialize(IOEnv.TRACE_FILE)
Traces == Input.traces

OK == "ok"
IsKnown(j) == Len(j) > 6 /\ SubSeq(j, 1, 6) = "known:"
=============================================================================
