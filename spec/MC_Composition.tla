--------------------------- MODULE MC_Composition ---------------------------
(***************************************************************************)
(* C04 bounded instance: every sequence over Alphabet up to MaxLen is a    *)
(* state.  The "sum over residues" definition equals the count form, is    *)
(* invariant under permutation, and the identities of the statement hold.  *)
(* Emit prints the expected value of every getter for replay.              *)
(***************************************************************************)
EXTENDS Composition, TLC, Json, SequencesExt
CONSTANTS Alphabet, MaxLen
VARIABLE seq
Init == seq = <<>>
Next == Len(seq) < MaxLen /\ \E a \in Alphabet : seq' = Append(seq, a)
Spec == Init /\ [][Next]_seq

Tables == <<KDShift10, WW100, PPIIHilser, PPIICreamer, PPIIKallenbach, MW10>>
SumIsCountForm == \A k \in 1..Len(Tables) : TabSumPos(seq, Tables[k], 1) = TabSum(seq, Tables[k])
PermutationInvariant == Len(seq) >= 1 =>
   LET r == Reverse(seq) IN \A q \in ScalarParams : REq(Param(q, r), Param(q, seq))
Identities == Len(seq) >= 1 =>
   /\ REq(Param("FCR", seq), RAdd(Param("fraction_positive", seq), Param("fraction_negative", seq)))
   /\ REq(Param("NCPR", seq), RSub(Param("fraction_positive", seq), Param("fraction_negative", seq)))
   /\ RLe(RAbs(Param("NCPR", seq)), Param("FCR", seq)) /\ RLe(Param("FCR", seq), ROne)
   /\ REq(RAdd(RAdd(Param("countPos", seq), Param("countNeg", seq)), Param("countNeut", seq)), Param("length", seq))
   /\ REq(Param("mean_net_charge", seq), RAbs(Param("NCPR", seq)))
FractionsSumToOne == Len(seq) >= 1 =>
   LET RECURSIVE Acc(_)
       Acc(k) == IF k > 20 THEN RZero ELSE RAdd(AAFraction(seq, ResidueOrder[k]), Acc(k+1))
   IN REq(Acc(1), ROne)
J(r) == [s |-> r.s, n |-> r.n, d |-> r.d]
Emit == Len(seq) >= 1 =>
   PrintT(<<"REC", ToJson([seq |-> seq, v |-> [q \in ScalarParams |-> J(Param(q, seq))],
                           aa |-> [a \in Residues |-> J(AAFraction(seq, a))]])>>)
=============================================================================
