----------------------------- MODULE Trace_Input -----------------------------
(***************************************************************************)
(* Validation of recorded constructions from strings (C13) and files (C14) *)
(* against SeqInput.  The platform's upper-casing and whitespace tables    *)
(* for the code points that occur are part of the input (trusted base).    *)
(***************************************************************************)
EXTENDS TraceBase, SeqInput
VARIABLES t, l, verdict
vars == <<t, l, verdict>>
SetOf(sq) == {sq[i] : i \in 1..Len(sq)}
UpPairs == SetOf(Input.upper)
Up == [c \in {pr[1] : pr \in UpPairs} |-> (CHOOSE pr \in UpPairs : pr[1] = c)[2]]
Sp == SetOf(Input.space)

Judge(e) ==
  CASE e.q = "construct" ->
         IF Accepts(e.cps, Up, Sp) # e.ok THEN (IF e.ok THEN "accepted-invalid-text" ELSE "rejected-valid-text")
         ELSE IF ~e.ok THEN OK
         ELSE IF e.seq # Normalise(e.cps, Up, Sp) THEN "sequence-not-the-normalised-word"
         ELSE IF e.len # Len(e.seq) \/ e.pylen # Len(e.seq) THEN "length-not-the-normalised-word"
         ELSE OK
    [] e.q = "parsefile" ->
         LET r == ParseFile(e.cps, Sp) IN
         IF r.ok # e.ok THEN (IF e.ok THEN "accepted-invalid-file" ELSE "rejected-valid-file")
         ELSE IF e.ok /\ e.seq # r.seq THEN "file-sequence-differs" ELSE OK
    [] OTHER -> "machinery:unknown-event"

Tr == Traces[t]
Init == t \in 1..Len(Traces) /\ l = 0 /\ verdict = <<"run">>
Step == /\ verdict = <<"run">> /\ l < Len(Tr.ev)
        /\ LET j == Judge(Tr.ev[l+1]) IN
           IF j = OK THEN l' = l + 1 /\ verdict' = verdict
           ELSE l' = l /\ verdict' = <<"reject", l + 1, j>> /\ PrintT(<<"REJ", ToJson([tid |-> Tr.tid, ev |-> l + 1, clause |-> j])>>)
        /\ t' = t
Done == /\ verdict = <<"run">> /\ l = Len(Tr.ev)
        /\ verdict' = <<"accept">> /\ PrintT(<<"ACC", ToJson([tid |-> Tr.tid, n |-> l])>>)
        /\ UNCHANGED <<t, l>>
Next == Step \/ Done
Spec == Init /\ [][Next]_vars
NoReject == verdict[1] # "reject"
=============================================================================
