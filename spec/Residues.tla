------------------------------ MODULE Residues ------------------------------
(***************************************************************************)
(* The 20 standard residues and the per-residue tables, written from the   *)
(* documentation (webpage.MD / the cited scales), as scaled integers.      *)
(***************************************************************************)
EXTENDS Integers, Sequences, FiniteSets

Residues == {"A","C","D","E","F","G","H","I","K","L","M","N","P","Q","R","S","T","V","W","Y"}
ResidueOrder == <<"A","C","D","E","F","G","H","I","K","L","M","N","P","Q","R","S","T","V","W","Y">>

Positive == {"K","R"}
Negative == {"D","E"}
ChargeOf(r) == IF r \in Positive THEN 1 ELSE IF r \in Negative THEN -1 ELSE 0

Expanding == {"D","E","K","R","P"}
\* TOP-IDP style disorder promoting set as documented for get_fraction_disorder_promoting
DisorderPromoting == {"T","A","G","R","D","H","Q","K","S","E","P"}
Phosphorylatable == {"S","T","Y"}

\* Kyte-Doolittle x10 (original scale -4.5 .. 4.5)
KD10 == [r \in Residues |->
  CASE r = "I" -> 45 [] r = "V" -> 42 [] r = "L" -> 38 [] r = "F" -> 28 [] r = "C" -> 25
    [] r = "M" -> 19 [] r = "A" -> 18 [] r = "G" -> -4 [] r = "T" -> -7 [] r = "S" -> -8
    [] r = "W" -> -9 [] r = "Y" -> -13 [] r = "P" -> -16 [] r = "H" -> -32 [] r = "E" -> -35
    [] r = "Q" -> -35 [] r = "D" -> -35 [] r = "N" -> -35 [] r = "K" -> -39 [] r = "R" -> -45]
\* shifted to 0..9 (x10): KD + 4.5
KDShift10 == [r \in Residues |-> KD10[r] + 45]

\* Wimley-White x100
WW100 == [r \in Residues |->
  CASE r = "I" -> 31 [] r = "V" -> -7 [] r = "L" -> 56 [] r = "F" -> 113 [] r = "C" -> 24
    [] r = "M" -> 23 [] r = "A" -> -17 [] r = "G" -> -1 [] r = "T" -> -14 [] r = "S" -> -13
    [] r = "W" -> 185 [] r = "Y" -> 94 [] r = "P" -> -45 [] r = "H" -> -96 [] r = "E" -> -202
    [] r = "Q" -> -58 [] r = "D" -> -123 [] r = "N" -> -42 [] r = "K" -> -99 [] r = "R" -> -81]

\* PPII propensities x1000
PPIIHilser == [r \in Residues |->
  CASE r = "I" -> 390 [] r = "V" -> 390 [] r = "L" -> 240 [] r = "F" -> 170 [] r = "C" -> 250
    [] r = "M" -> 360 [] r = "A" -> 370 [] r = "G" -> 130 [] r = "T" -> 320 [] r = "S" -> 240
    [] r = "W" -> 250 [] r = "Y" -> 250 [] r = "P" -> 1000 [] r = "H" -> 200 [] r = "E" -> 420
    [] r = "Q" -> 530 [] r = "D" -> 300 [] r = "N" -> 270 [] r = "K" -> 560 [] r = "R" -> 380]
PPIICreamer == [r \in Residues |->
  CASE r = "I" -> 500 [] r = "V" -> 490 [] r = "L" -> 580 [] r = "F" -> 580 [] r = "C" -> 550
    [] r = "M" -> 550 [] r = "A" -> 610 [] r = "G" -> 580 [] r = "T" -> 530 [] r = "S" -> 580
    [] r = "W" -> 580 [] r = "Y" -> 580 [] r = "P" -> 670 [] r = "H" -> 550 [] r = "E" -> 610
    [] r = "Q" -> 660 [] r = "D" -> 630 [] r = "N" -> 550 [] r = "K" -> 590 [] r = "R" -> 610]
PPIIKallenbach == [r \in Residues |->
  CASE r = "I" -> 519 [] r = "V" -> 743 [] r = "L" -> 574 [] r = "F" -> 639 [] r = "C" -> 557
    [] r = "M" -> 498 [] r = "A" -> 818 [] r = "G" -> 500 [] r = "T" -> 553 [] r = "S" -> 774
    [] r = "W" -> 764 [] r = "Y" -> 630 [] r = "P" -> 1000 [] r = "H" -> 428 [] r = "E" -> 684
    [] r = "Q" -> 654 [] r = "D" -> 552 [] r = "N" -> 667 [] r = "K" -> 581 [] r = "R" -> 638]

\* molecular weight of the free amino acid x10 (Da)
MW10 == [r \in Residues |->
  CASE r = "I" -> 1312 [] r = "V" -> 1171 [] r = "L" -> 1312 [] r = "F" -> 1652 [] r = "C" -> 1212
    [] r = "M" -> 1492 [] r = "A" -> 891 [] r = "G" -> 751 [] r = "T" -> 1191 [] r = "S" -> 1051
    [] r = "W" -> 2042 [] r = "Y" -> 1812 [] r = "P" -> 1151 [] r = "H" -> 1552 [] r = "E" -> 1471
    [] r = "Q" -> 1462 [] r = "D" -> 1331 [] r = "N" -> 1321 [] r = "K" -> 1462 [] r = "R" -> 1742]

\* EMBOSS pKa x10 of the titratable side chains
TitratePos == {"K","R","H"}
TitrateNeg == {"D","E","C","Y"}
PKa10 == [r \in TitratePos \cup TitrateNeg |->
  CASE r = "C" -> 85 [] r = "Y" -> 101 [] r = "H" -> 65 [] r = "E" -> 41 [] r = "D" -> 39
    [] r = "K" -> 100 [] r = "R" -> 125]

HTMLColours == {"aqua","black","blue","fuchsia","gray","green","lime","maroon","navy","olive",
                "orange","purple","red","silver","teal","white","yellow"}
DefaultPalette == [r \in Residues |->
  CASE r \in {"A","C","I","L","M","V"} -> "black" [] r \in {"D","E"} -> "red"
    [] r \in {"F","W","Y"} -> "orange" [] r \in {"G","H","N","Q","S","T"} -> "green"
    [] r \in {"K","R"} -> "blue" [] r = "P" -> "fuchsia"]

ASSUME Cardinality(Residues) = 20 /\ Len(ResidueOrder) = 20 /\ Cardinality(HTMLColours) = 17
=============================================================================
