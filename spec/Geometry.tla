------------------------------ MODULE Geometry ------------------------------
(***************************************************************************)
(* Integer geometry of sliding windows, shared by Profiles (C10, C11) and  *)
(* proved for all sizes in ProofsGeometry (TLAPS).                         *)
(***************************************************************************)
EXTENDS Integers
\* documented placement: the window starting at residue i is reported at position i + floor((w-1)/2);
\* floor((w-1)/2) leading and ceil((w-1)/2) trailing positions are 0
LeadDoc(w)  == (w - 1) \div 2
TrailDoc(w) == (w - 1) - (w - 1) \div 2
\* the implementation's flank arithmetic
FlankStartCode(N, w) == LET flank == w \div 2  nb == N - w + 1 IN IF 2 * flank + nb = N THEN flank ELSE flank - 1
FlankEndCode(N, w) == w \div 2
\* complexity profiles: K windows of length w at step s
NumWindows(N, w, s) == (N - w) \div s + 1          \* w <= N, s >= 1
WindowStart(k, s) == (k - 1) * s + 1                \* 1-based start of window k = 1..K
\* the position row as the implementation distributes K points over 1..N: first position, spacing, count
PosSpacing(N, K) == N \div K
PosRem(N, K) == N - PosSpacing(N, K) * K
PosFrontSkip(N, K) == IF PosRem(N, K) % 2 = 0 THEN PosRem(N, K) \div 2 ELSE (PosRem(N, K) - 1) \div 2
PosEndSkip(N, K) == IF PosRem(N, K) % 2 = 0 THEN PosRem(N, K) \div 2 ELSE (PosRem(N, K) + 1) \div 2
PosStart(N, K) == (PosFrontSkip(N, K) + 1) + PosSpacing(N, K) \div 2
PosStop(N, K) == ((N + 1) - PosEndSkip(N, K)) + PosSpacing(N, K) \div 2                \* exclusive
PosCount(N, K) == IF PosStop(N, K) <= PosStart(N, K) THEN 0
                  ELSE (PosStop(N, K) - PosStart(N, K) + PosSpacing(N, K) - 1) \div PosSpacing(N, K)
=============================================================================
