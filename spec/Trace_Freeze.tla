---------------------------- MODULE Trace_Freeze ----------------------------
(* Validation of recorded parseFreezeFile(path) calls: the verdict is conformance with FreezeFile.ParseFreeze(.., "coded");   *)
(* where the documented reading differs a NOTE names the deviation (growth finding, not a listed property).                    *)
EXTENDS TraceBase, FreezeFile
VARIABLES t, l, verdict
vars == <<t, l, verdict>>
SetOf(sq) == {sq[i] : i \in 1..Len(sq)}
Sp == SetOf(Input.space)
Ints(e) == {<<pr[1], pr[2]>> : pr \in SetOf(e.ints)}
Judge(e) ==
  LET r == ParseFreeze(e.cps, Sp, Ints(e), "coded") IN
  IF r.ok # e.ok THEN (IF e.ok THEN "accepted-where-the-coded-reading-fails" ELSE "failed-where-the-coded-reading-accepts")
  ELSE IF e.ok /\ SetOf(e.frozen) # r.frozen THEN "frozen-set-differs"
  ELSE OK
Deviation(e) ==
  LET c == ParseFreeze(e.cps, Sp, Ints(e), "coded")  d == ParseFreeze(e.cps, Sp, Ints(e), "doc") IN
  IF c.ok = d.ok /\ c.frozen = d.frozen THEN OK
  ELSE IF ~c.ok /\ c.why = "BlankLineCrashes" THEN "BlankLineCrashes"
  ELSE IF ~c.ok /\ d.ok /\ c.why = "first-after-second" THEN "BoundsComparedAsText"
  ELSE IF c.ok /\ ~d.ok /\ d.why = "first-after-second" THEN "BoundsComparedAsText"
  ELSE "SingleSpaceOnly"
Tr == Traces[t]
Init == t \in 1..Len(Traces) /\ l = 0 /\ verdict = <<"run">>
Step == /\ verdict = <<"run">> /\ l < Len(Tr.ev)
        /\ LET j == Judge(Tr.ev[l+1]) IN
           IF j = OK THEN /\ l' = l + 1 /\ verdict' = verdict
                          /\ (Deviation(Tr.ev[l+1]) # OK => PrintT(<<"NOTE", ToJson([tid |-> Tr.tid, ev |-> l + 1, what |-> Deviation(Tr.ev[l+1])])>>))
           ELSE l' = l /\ verdict' = <<"reject", l + 1, j>> /\ PrintT(<<"REJ", ToJson([tid |-> Tr.tid, ev |-> l + 1, clause |-> j])>>)
        /\ t' = t
Done == /\ verdict = <<"run">> /\ l = Len(Tr.ev)
        /\ verdict' = <<"accept">> /\ PrintT(<<"ACC", ToJson([tid |-> Tr.tid, n |-> l])>>)
        /\ UNCHANGED <<t, l>>
Next == Step \/ Done
Spec == Init /\ [][Next]_vars
NoReject == verdict[1] # "reject"
=============================================================================
