------------------------------ MODULE MC_Region ------------------------------
(***************************************************************************)
(* C08 bounded instance: every composition (p, n, z) with p+n+z <= MaxN is *)
(* a state.  The coded cascade equals the documented thresholds, is total, *)
(* and depends on (p, n, N) only (it is a function of the state).          *)
(***************************************************************************)
EXTENDS Region, Sequences, TLC, Json
CONSTANTS MaxN
VARIABLE c
Init == c = <<0, 0, 1>> \/ c = <<1, 0, 0>> \/ c = <<0, 1, 0>>
Next == \E k \in 1..3 : c[1] + c[2] + c[3] < MaxN /\ c' = [c EXCEPT ![k] = @ + 1]
Spec == Init /\ [][Next]_c
p == c[1]
n == c[2]
N == c[1] + c[2] + c[3]
CodeIsDoc == RegionCode(p, n, N) = RegionDoc(p, n, N)
Total == RegionCode(p, n, N) \in 1..5
Sign == (RegionCode(p, n, N) = 5 => p > n) /\ (RegionCode(p, n, N) = 4 => n > p)
Emit == PrintT(<<"REC", ToJson([p |-> p, n |-> n, N |-> N, region |-> RegionDoc(p, n, N)])>>)
=============================================================================
