----------------------------- MODULE Patterning -----------------------------
(***************************************************************************)
(* Charge patterning: sigma, delta (Das & Pappu 2013), the documented      *)
(* delta-max family, kappa with sentinel and clamp, Omega / kappa_X        *)
(* recodings, SCD coefficients (Sawle & Ghosh 2015).                       *)
(*                                                                         *)
(* A charge pattern is a sequence over {1,-1,0}.  All arrangements of one  *)
(* composition (p,n,z) share the denominator                               *)
(*     DeltaDen = 2 * (1800*Q)^2 * nb5 * nb6,   Q = N*(p+n)                *)
(* (1800 = lcm of b*k, b in {5,6}, k <= b, so blob sigmas scaled by 1800   *)
(* are integers), hence comparing deltas inside a composition compares     *)
(* integers (BigNat).                                                      *)
(***************************************************************************)
EXTENDS Rat, Residues, FiniteSets, SequencesExt

ChargePattern(seq) == [i \in 1..Len(seq) |-> ChargeOf(seq[i])]

CountOf(x, v) == Cardinality({i \in 1..Len(x) : x[i] = v})
NPos(x) == CountOf(x, 1)
NNeg(x) == CountOf(x, -1)
NNeut(x) == CountOf(x, 0)

Rev(x) == [i \in 1..Len(x) |-> x[Len(x) + 1 - i]]
Inv(x) == [i \in 1..Len(x) |-> -x[i]]
Rep(v, k) == [i \in 1..k |-> v]

Max2(a, b) == IF a > b THEN a ELSE b

\* blob sigma scaled by 1800: 1800*(bp-bn)^2 / (b*(bp+bn)), an integer
SigS(bp, bn, b) == IF bp + bn = 0 THEN 0 ELSE (1800 * (bp - bn) * (bp - bn)) \div (b * (bp + bn))
BlobP(x, i, b) == Cardinality({j \in i..(i+b-1) : x[j] = 1})
BlobN(x, i, b) == Cardinality({j \in i..(i+b-1) : x[j] = -1})

\* sum over blobs lo..hi of (A - Q*SigS_i)^2, divide and conquer (stack depth log N)
RECURSIVE SumSq(_,_,_,_,_,_)
SumSq(x, b, lo, hi, A, Q) ==
  IF lo > hi THEN BZero
  ELSE IF lo = hi THEN LET bx == BFromNat(IAbs(A - Q * SigS(BlobP(x, lo, b), BlobN(x, lo, b), b)))
                       IN BMul(bx, bx)
  ELSE LET mid == (lo + hi) \div 2 IN BAdd(SumSq(x, b, lo, mid, A, Q), SumSq(x, b, mid+1, hi, A, Q))

\* the same sum for long chains: 1800*N^2 no longer fits TLC's 32-bit integers above about 1000 residues, so
\* A and Q*SigS are formed as BigNats (AB = A, QB = Q as BigNats); N*(p+n) itself fits up to 46340 residues
BAbsDiff(a, b) == IF BLe(b, a) THEN BSub(a, b) ELSE BSub(b, a)
RECURSIVE SumSqBig(_,_,_,_,_,_)
SumSqBig(x, b, lo, hi, AB, QB) ==
  IF lo > hi THEN BZero
  ELSE IF lo = hi THEN LET bx == BAbsDiff(AB, BMulNat(QB, SigS(BlobP(x, lo, b), BlobN(x, lo, b), b)))
                       IN BMul(bx, bx)
  ELSE LET mid == (lo + hi) \div 2 IN BAdd(SumSqBig(x, b, lo, mid, AB, QB), SumSqBig(x, b, mid+1, hi, AB, QB))
LongChain == 1000

\* numerator of delta over DeltaDen: the two evaluations (MC_Patterning checks that they agree)
DeltaNumSmall(x) ==
  LET N == Len(x)  p == NPos(x)  n == NNeg(x)
      Q == N * (p + n)  A == 1800 * (p - n) * (p - n)
  IN IF N < 5 \/ p + n = 0 THEN BZero
     ELSE BAdd(BMulNat(SumSq(x, 5, 1, N-4, A, Q), Max2(N-5, 1)),
               IF N < 6 THEN BZero ELSE BMulNat(SumSq(x, 6, 1, N-5, A, Q), N-4))
DeltaNumBig(x) ==
  LET N == Len(x)  p == NPos(x)  n == NNeg(x)
      AB == BMulNat(BFromNat((p - n) * (p - n)), 1800)  QB == BFromNat(N * (p + n))
  IN IF N < 5 \/ p + n = 0 THEN BZero
     ELSE BAdd(BMulNat(SumSqBig(x, 5, 1, N-4, AB, QB), Max2(N-5, 1)),
               IF N < 6 THEN BZero ELSE BMulNat(SumSqBig(x, 6, 1, N-5, AB, QB), N-4))
DeltaNum(x) == IF Len(x) > LongChain THEN DeltaNumBig(x) ELSE DeltaNumSmall(x)
\* the composition's common denominator (N >= 1, p+n >= 1)
DeltaDenOf(N, p, n) ==
  LET S == BMulNat(BFromNat(N * (p + n)), 1800) IN
  BMulNat(BMulNat(BMulSmall(BMul(S, S), 2), Max2(N-4, 1)), Max2(N-5, 1))
Delta(x) == LET N == Len(x)  p == NPos(x)  n == NNeg(x) IN
            IF p + n = 0 THEN RZero ELSE RMk(1, DeltaNum(x), DeltaDenOf(N, p, n))

(***************************************************************************)
(* Definitional form of delta, straight from the statement, in plain Rat   *)
(* arithmetic (slow; used only in the bounded model to show the scaled     *)
(* form above is the same number).                                         *)
(***************************************************************************)
SigmaDef(p, n, len) == IF p + n = 0 THEN RZero ELSE RFrac((p - n) * (p - n), len * (p + n))
RECURSIVE SumDev(_,_,_,_,_)
SumDev(x, b, lo, hi, sg) ==
  IF lo > hi THEN RZero
  ELSE IF lo = hi THEN LET dv == RSub(sg, SigmaDef(BlobP(x, lo, b), BlobN(x, lo, b), b)) IN RMul(dv, dv)
  ELSE LET mid == (lo + hi) \div 2 IN RAdd(SumDev(x, b, lo, mid, sg), SumDev(x, b, mid+1, hi, sg))
DeltaFormDef(x, b) == LET nb == Len(x) - b + 1 IN
  IF nb < 1 THEN RZero
  ELSE RMul(SumDev(x, b, 1, nb, SigmaDef(NPos(x), NNeg(x), Len(x))), RFrac(1, nb))
DeltaDef(x) == RMul(RAdd(DeltaFormDef(x, 5), DeltaFormDef(x, 6)), RFrac(1, 2))

(***************************************************************************)
(* The documented family of maximally segregated arrangements.             *)
(***************************************************************************)
Blocks3(a, ka, b, kb, c, kc) == Rep(a, ka) \o Rep(b, kb) \o Rep(c, kc)
\* minority block `inner' (k copies) slid through `outer' (m copies)
Slide(outer, m, inner, k) == {Blocks3(outer, pos, inner, k, outer, m - pos) : pos \in 0..m}
\* 0^s +^p 0^mid -^n 0^e
PNLayout(p, n, s, mid, e) == Rep(0, s) \o Rep(1, p) \o Rep(0, mid) \o Rep(-1, n) \o Rep(0, e)

Regime(p, n, z) ==
  IF p + n = 0 THEN "none"
  ELSE IF p = 0 \/ n = 0 THEN "single"
  ELSE IF z = 0 THEN "noneutral"
  ELSE IF z >= 18 THEN "many"
  ELSE "general"

Family(p, n, z) ==
  CASE Regime(p, n, z) = "none"   -> {Rep(0, z)}
    [] Regime(p, n, z) = "single" ->
         LET c == IF p = 0 THEN -1 ELSE 1   k == p + n IN
         IF z > k THEN Slide(0, z, c, k) ELSE Slide(c, k, 0, z)
    [] Regime(p, n, z) = "noneutral" ->
         IF p > n THEN Slide(1, p, -1, n) ELSE Slide(-1, n, 1, p)
    [] Regime(p, n, z) = "many" ->
         {PNLayout(p, n, s, z - s - e, e) : s \in 0..6, e \in 0..6}
    [] Regime(p, n, z) = "general" ->
         UNION {{PNLayout(p, n, s, mid, z - s - mid) : s \in 0..(z - mid)} : mid \in 0..z}

\* at a tie of the two block lengths the statement ("the minority block") does not
\* say which block slides; this is the other reading, accepted for the value only
FamilyAlt(p, n, z) ==
  CASE Regime(p, n, z) = "single" /\ z = p + n ->
         LET c == IF p = 0 THEN -1 ELSE 1 IN Slide(0, z, c, p + n)
    [] Regime(p, n, z) = "noneutral" /\ p = n -> Slide(1, p, -1, n)
    [] OTHER -> Family(p, n, z)

RECURSIVE BMaxOver(_)
BMaxOver(S) == IF S = {} THEN BZero
               ELSE LET e == CHOOSE e \in S : TRUE
                        r == BMaxOver(S \ {e}) IN IF BCmp(e, r) > 0 THEN e ELSE r
DeltaMaxNumOf(fam) == BMaxOver({DeltaNum(c) : c \in fam})
DeltaMaxNum(p, n, z) == DeltaMaxNumOf(Family(p, n, z))
DeltaMaxNumAlt(p, n, z) == DeltaMaxNumOf(FamilyAlt(p, n, z))
DeltaMax(p, n, z) == IF p + n = 0 THEN RZero ELSE RMk(1, DeltaMaxNum(p, n, z), DeltaDenOf(p + n + z, p, n))
DeltaMaxAlt(p, n, z) == IF p + n = 0 THEN RZero ELSE RMk(1, DeltaMaxNumAlt(p, n, z), DeltaDenOf(p + n + z, p, n))
DeltaMaxOf(x) == DeltaMax(NPos(x), NNeg(x), NNeut(x))

(***************************************************************************)
(* kappa: -1 iff delta-max is 0, else delta/delta-max, a ratio in (1,1.1)  *)
(* reported as 1.                                                          *)
(***************************************************************************)
KappaSentinel == RFromInt(-1)
Clamp(r) == IF RLt(ROne, r) /\ RLt(r, RFrac(11, 10)) THEN ROne ELSE r
KappaRaw(x) == RMk(1, DeltaNum(x), DeltaMaxNum(NPos(x), NNeg(x), NNeut(x)))   \* only if dmax # 0
Kappa(x) == IF DeltaMaxNum(NPos(x), NNeg(x), NNeut(x)) = BZero THEN KappaSentinel ELSE Clamp(KappaRaw(x))
KappaInRange(k) == REq(k, KappaSentinel) \/ (RLe(RZero, k) /\ RLe(k, ROne))

(***************************************************************************)
(* Recodings.                                                              *)
(***************************************************************************)
OmegaGroup == {"P","E","D","K","R"}
OmegaPattern(seq) == [i \in 1..Len(seq) |-> IF seq[i] \in OmegaGroup THEN -1 ELSE 1]
OmegaString(seq) == [i \in 1..Len(seq) |-> IF seq[i] \in OmegaGroup THEN "X" ELSE "O"]
\* g1 first (code and documentation: group 1 wins on overlap); g2 = {} is the one-group call
KappaXPattern(seq, g1, g2) ==
  [i \in 1..Len(seq) |-> IF seq[i] \in g1 THEN -1
                         ELSE IF g2 = {} THEN 1
                         ELSE IF seq[i] \in g2 THEN 1 ELSE 0]

(***************************************************************************)
(* SCD = (1/N) * sum_d Coeff(d) * sqrt(d),  Coeff(d) = sum_{m-n=d} q_m q_n  *)
(***************************************************************************)
RECURSIVE ISum(_,_,_)
ISum(f, lo, hi) == IF lo > hi THEN 0 ELSE IF lo = hi THEN f[lo]
                   ELSE LET mid == (lo + hi) \div 2 IN ISum(f, lo, mid) + ISum(f, mid+1, hi)
SCDCoeff(x, d) == ISum([i \in 1..(Len(x) - d) |-> x[i] * x[i + d]], 1, Len(x) - d)
=============================================================================
