------------------------------ MODULE MC_Object ------------------------------
(***************************************************************************)
(* Bounded instance of the object state machine: 2 object ids, a pool of   *)
(* four sequences (uncharged, mixed with S/T/Y and a permutation of it,    *)
(* single charge type), representative phosphosite and palette arguments.  *)
(* The whole reachable graph is explored, so every finite call history of  *)
(* this model is covered.                                                  *)
(***************************************************************************)
EXTENDS SeqObject, TLC
MCObjIds == {1, 2}
MCPool == { <<"G","Q","S","N","T">>, <<"K","E","S","G","T","E","K","Y">>, <<"D","R","T","G","S","K","E","Y">>, <<"K","K","G","S","K">> }
MCSiteArgs == { <<3>>, <<5, 3>>, <<0, 9>>, <<8, 8, 4>>, <<-1, 1>> }
PalValid == [r \in Residues |-> "red"]
PalExtra == [r \in Residues \cup {"X"} |-> IF r = "X" THEN "pink" ELSE "blue"]
PalMissing == [r \in Residues \ {"M"} |-> "navy"]
PalBadColour == [r \in Residues |-> IF r = "W" THEN "pink" ELSE "lime"]
PalCase == [r \in Residues |-> IF r = "D" THEN "Red" ELSE "teal"]
MCPalArgs == {PalValid, PalExtra, PalMissing, PalBadColour, PalCase}
\* quick variants
MCSiteArgsQ == { <<5, 3>>, <<0, 9>> }
MCPalArgsQ == {PalExtra, PalBadColour}
MCPoolQ == { <<"G","Q","S","N","T">>, <<"K","E","S","G","T","E","K","Y">>, <<"D","R","T","G","S","K","E","Y">> }
=============================================================================
