------------------------------ MODULE MC_Object ------------------------------
(***************************************************************************)
(* Bounded instance of the object state machine: 2 object ids, a pool of   *)
(* four sequences (uncharged, mixed with S/T/Y and a permutation of it,    *)
(* single charge type), representative phosphosite and palette arguments.  *)
(* The whole reachable graph is explored, so every finite call history of  *)
(* this model is covered.                                                  *)
(***************************************************************************)
EXTENDS SeqObject, TLC
MCObjIds == {1, 2}
MCPool == { <<"G","Q","S","N","T">>, <<"K","E","S","G","T","E","K","Y">>, <<"D","R","T","G","S","K","E","Y">>, <<"K","K","G","S","K">>, <<"D","R","K","K","G","S","E">> }
MCSiteArgs == { <<3>>, <<5, 3>>, <<0, 9>>, <<8, 8, 4>>, <<-1, 1>> }
PalValid == [r \in Residues |-> "red"]
PalExtra == [r \in Residues \cup {"X"} |-> IF r = "X" THEN "pink" ELSE "blue"]
PalMissing == [r \in Residues \ {"M"} |-> "navy"]
PalBadColour == [r \in Residues |-> IF r = "W" THEN "pink" ELSE "lime"]
PalCase == [r \in Residues |-> IF r = "D" THEN "Red" ELSE "teal"]
MCPalArgs == {PalValid, PalExtra, PalMissing, PalBadColour, PalCase}
\* C16 instance: one object, two sequences, every argument of up to two positions in -2..N+2
MCObjIdsOne == {1}
MCPoolPhos == { <<"S","A","K","T","Y">>, <<"G","S","T","Y","S","G">> }
MCSiteArgsPhos == {<<>>} \cup {<<a>> : a \in -2..8} \cup {<<a, b>> : a \in -2..8, b \in -2..8}
MCPalArgsNone == {PalValid}
MCSiteArgsPhosH == {<<a>> : a \in -1..7} \cup {<<4, 1>>, <<5, 5>>, <<0, 2, 9>>, <<3, 2, 3>>, <<>>}
\* quick variants
MCSiteArgsQ == { <<5, 3>>, <<0, 9>> }
MCPalArgsQ == {PalExtra, PalBadColour}
\* the last one is of the class whose delta / delta-max lies in (1, 1.1) (kappa is reported as 1)
MCPoolQ == { <<"G","Q","S","N","T">>, <<"K","E","S","G","T","E","K","Y">>, <<"D","R","T","G","S","K","E","Y">>, <<"D","R","K","K","G","S","E">> }
=============================================================================
