----------------------------- MODULE Trace_Plots -----------------------------
(***************************************************************************)
(* Validation of figure records read from matplotlib's object model after  *)
(* each plotting entry point (C19): markers, annotations, title, limits,   *)
(* what was returned, the region polygons, the bars of linear profiles.    *)
(***************************************************************************)
EXTENDS TraceBase, Composition, Profiles, Plots
VARIABLES t, l, verdict
vars == <<t, l, verdict>>
QR(x) == RFrac(x[1], x[2])
PtR(p) == <<RFromFx(p[1]), RFromFx(p[2])>>
\* expected marker of one sequence
Coord(kind, seq) == IF kind = "phase" THEN <<Param("fraction_positive", seq), Param("fraction_negative", seq)>>
                    ELSE <<Param("mean_net_charge", seq), Param("uversky_hydropathy", seq)>>
ExpectedPts(e) == IF e.fromseq THEN [i \in 1..Len(e.seqs) |-> Coord(e.kind, e.seqs[i])]
                  ELSE [i \in 1..Len(e.coords) |-> PtR(e.coords[i])]
JudgeFigure(e) ==
  LET pts == ExpectedPts(e) IN
  IF e.exc THEN "plot-call-failed"
  ELSE IF e.getfig # e.returned THEN "figure-not-returned-when-getFig-is-set"
  ELSE IF Len(e.markers) # Len(pts) THEN "marker-count"
  ELSE IF \E i \in 1..Len(pts) : ~(RClose(RFromFx(e.markers[i][1]), pts[i][1]) /\ RClose(RFromFx(e.markers[i][2]), pts[i][2])) THEN "marker-coordinates"
  ELSE IF e.title # e.wanttitle THEN "title"
  ELSE IF e.labels # e.wantlabels THEN "labels"
  ELSE IF ~(RClose(RFromFx(e.xlim[1]), RZero) /\ RClose(RFromFx(e.xlim[2]), RFromFx(e.wantxlim))
            /\ RClose(RFromFx(e.ylim[1]), RZero) /\ RClose(RFromFx(e.ylim[2]), RFromFx(e.wantylim))) THEN "axis-limits"
  ELSE IF e.saved /\ ~e.fileok THEN "saved-file"
  ELSE IF e.kind = "phase" /\ e.fromseq /\
          \E i \in 1..Len(e.seqs) :
             LET s == e.seqs[i]
                 r == RegionDoc(Count(s, Positive), Count(s, Negative), Len(s))
                 poly(k) == [j \in 1..Len(e.polys[k]) |-> PtR(e.polys[k][j])] IN
             Len(e.polys) # 5 \/ ~InClosedR(poly(r), pts[i]) \/ \E k \in 1..5 : k # r /\ InInteriorR(poly(k), pts[i])
       THEN "marker-not-in-the-region-that-classifies-it"
  \* ... and the number the library itself assigns (get_phasePlotRegion on the same sequence) names a drawn region holding the marker
  ELSE IF e.kind = "phase" /\ e.fromseq /\
          \E i \in 1..Len(e.seqs) :
             LET a == e.assigned[i]
                 poly(k) == [j \in 1..Len(e.polys[k]) |-> PtR(e.polys[k][j])] IN
             a \notin 1..5 \/ ~InClosedR(poly(a), pts[i]) \/ \E k \in 1..5 : k # a /\ InInteriorR(poly(k), pts[i])
       THEN "marker-not-in-the-region-the-sequence-is-assigned"
  ELSE OK
JudgeBars(e) ==
  LET N == Len(e.seq) IN
  IF e.exc THEN "plot-call-failed"
  ELSE IF Len(e.heights) # N \/ Len(e.xs) # N THEN "one-bar-per-residue"
  ELSE IF \E j \in 1..N : ~RClose(RFromFx(e.xs[j]), RFromInt(j)) THEN "bar-positions"
  ELSE IF \E j \in 1..N : ~RClose(RFromFx(e.heights[j]), QR(StatProfile(e.stat, e.seq, e.w)[j])) THEN "bar-heights"
  ELSE OK
\* complexity plots (show_/save_linearComplexity): one bar per *window* of the complexity profile, at the profile's position row
\* and with its values (e.pos / e.prof: what get_linear_complexity returned for the same arguments), the window count of
\* Geometry, the type's title, the axes spanning the chain and [0,1], the figure returned when asked for
ComplexityTitle(ty) == IF ty = "WF" THEN "Wooton-Federhen complexity" ELSE IF ty = "LC" THEN "Linguistic complexity" ELSE "Lempel-Ziv-Welch complexity"
JudgeCBars(e) ==
  LET N == Len(e.seq)
      K == NumWindows(N, e.w, e.s) IN
  IF e.exc THEN "plot-call-failed"
  ELSE IF e.getfig # e.returned THEN "figure-not-returned-when-getFig-is-set"
  ELSE IF Len(e.pos) # K \/ Len(e.prof) # K THEN "machinery:complexity-profile-window-count"
  ELSE IF Len(e.heights) # K \/ Len(e.xs) # K THEN "one-bar-per-window"
  ELSE IF \E j \in 1..K : ~RClose(RFromFx(e.xs[j]), RFromFx(e.pos[j])) THEN "bar-positions"
  ELSE IF \E j \in 1..K : ~RClose(RFromFx(e.heights[j]), RFromFx(e.prof[j])) THEN "bar-heights"
  ELSE IF e.title # ComplexityTitle(e.ctype) THEN "title"
  ELSE IF ~(RClose(RFromFx(e.xlim[1]), ROne) /\ RClose(RFromFx(e.xlim[2]), RFromInt(N))
            /\ RClose(RFromFx(e.ylim[1]), RZero) /\ RClose(RFromFx(e.ylim[2]), ROne)) THEN "axis-limits"
  ELSE IF e.saved /\ ~e.fileok THEN "saved-file"
  ELSE OK
\* composition plot (save_linearComposition): one smoothed curve per standard group over residues 1..N and, with
\* plot_data set, the raw density profile of that group under it (the spline's ordinates are numerics of scipy and are
\* not judged; the raw curves are the documented profile of C10)
JudgeLines(e) ==
  LET N == Len(e.seq)
      G == Len(DefaultGroups)
      raw(g) == IF e.plotdata THEN e.lines[2 * g - 1] ELSE <<>>
      smooth(g) == IF e.plotdata THEN e.lines[2 * g] ELSE e.lines[g]
      xsOK(ln) == Len(ln.x) = N /\ \A j \in 1..N : RClose(RFromFx(ln.x[j]), RFromInt(j)) IN
  IF e.exc THEN "plot-call-failed"
  ELSE IF Len(e.lines) # (IF e.plotdata THEN 2 * G ELSE G) THEN "one-curve-per-group"
  ELSE IF \E g \in 1..G : ~xsOK(smooth(g)) \/ (e.plotdata /\ ~xsOK(raw(g))) THEN "curve-positions"
  ELSE IF e.plotdata /\ \E g \in 1..G : \/ Len(raw(g).y) # N
                                         \/ \E j \in 1..N : ~RClose(RFromFx(raw(g).y[j]), QR(GroupProfile(e.seq, e.w, DefaultGroups[g])[j]))
       THEN "raw-curve-heights"
  ELSE IF \E g \in 1..G : smooth(g).label # e.wantnames[g] \/ smooth(g).color # e.wantcolors[g] THEN "curve-legend"
  ELSE IF e.title # e.wanttitle THEN "title"
  ELSE IF ~(RClose(RFromFx(e.xlim[1]), ROne) /\ RClose(RFromFx(e.xlim[2]), RFromInt(N)) /\ RClose(RFromFx(e.ylim[1]), RZero)) THEN "axis-limits"
  ELSE IF ~e.fileok THEN "saved-file"
  ELSE OK
Judge(e) == IF e.q = "figure" THEN JudgeFigure(e) ELSE IF e.q = "bars" THEN JudgeBars(e)
            ELSE IF e.q = "cbars" THEN JudgeCBars(e) ELSE IF e.q = "lines" THEN JudgeLines(e) ELSE "machinery:unknown-event"

Tr == Traces[t]
Init == t \in 1..Len(Traces) /\ l = 0 /\ verdict = <<"run">>
Step == /\ verdict = <<"run">> /\ l < Len(Tr.ev)
        /\ LET j == Judge(Tr.ev[l+1]) IN
           IF j = OK THEN l' = l + 1 /\ verdict' = verdict
           ELSE l' = l /\ verdict' = <<"reject", l + 1, j>> /\ PrintT(<<"REJ", ToJson([tid |-> Tr.tid, ev |-> l + 1, clause |-> j])>>)
        /\ t' = t
Done == /\ verdict = <<"run">> /\ l = Len(Tr.ev)
        /\ verdict' = <<"accept">> /\ PrintT(<<"ACC", ToJson([tid |-> Tr.tid, n |-> l])>>)
        /\ UNCHANGED <<t, l>>
Next == Step \/ Done
Spec == Init /\ [][Next]_vars
NoReject == verdict[1] # "reject"
=============================================================================
