------------------------------ MODULE SeqInput ------------------------------
(***************************************************************************)
(* Input handling over code points (C13, C14).                             *)
(*                                                                         *)
(* Strings: a text is accepted iff, after upper-casing and deleting        *)
(* whitespace, it is a non-empty word over the 20 amino-acid letters; the  *)
(* object's sequence is that word.  "Upper-casing" and "whitespace" are    *)
(* the platform's (Python str.upper / str.isspace); their tables are       *)
(* parameters `up' (code point -> sequence of code points, identity when   *)
(* absent) and `sp' (set of code points) supplied by the harness.          *)
(*                                                                         *)
(* Files: the parser as a line-by-line state machine with a header flag,   *)
(* the accumulated sequence and a status.                                  *)
(***************************************************************************)
EXTENDS Integers, Sequences, FiniteSets

\* code points of A C D E F G H I K L M N P Q R S T V W Y
AACodes == {65, 67, 68, 69, 70, 71, 72, 73, 75, 76, 77, 78, 80, 81, 82, 83, 84, 86, 87, 89}
SPACE == 32
STAR == 42
GT == 62
LF == 10
CR == 13
Digits == 48..57

UpperOf(c, up) == IF c \in DOMAIN up THEN up[c] ELSE <<c>>
RECURSIVE UpperAll(_,_)
UpperAll(cps, up) == IF cps = <<>> THEN <<>> ELSE UpperOf(Head(cps), up) \o UpperAll(Tail(cps), up)
Normalise(cps, up, sp) == SelectSeq(UpperAll(cps, up), LAMBDA c : c \notin sp)
Accepts(cps, up, sp) == LET n == Normalise(cps, up, sp) IN n # <<>> /\ \A i \in 1..Len(n) : n[i] \in AACodes

(***************************************************************************)
(* File parser.  st = [header, acc, status], status in run / reject.       *)
(***************************************************************************)
RECURSIVE NewlineFold(_)
\* universal newlines: CR LF and lone CR read as LF
NewlineFold(cps) == IF cps = <<>> THEN <<>>
                    ELSE IF Head(cps) = CR THEN
                         (IF Len(cps) >= 2 /\ cps[2] = LF THEN <<LF>> \o NewlineFold(Tail(Tail(cps)))
                          ELSE <<LF>> \o NewlineFold(Tail(cps)))
                    ELSE <<Head(cps)>> \o NewlineFold(Tail(cps))
RECURSIVE SplitLF(_,_)
\* lines as readlines() yields them (without the terminators); no final empty line after a trailing LF
SplitLF(cps, cur) == IF cps = <<>> THEN (IF cur = <<>> THEN <<>> ELSE <<cur>>)
                     ELSE IF Head(cps) = LF THEN <<cur>> \o SplitLF(Tail(cps), <<>>)
                     ELSE SplitLF(Tail(cps), Append(cur, Head(cps)))
Lines(cps) == SplitLF(NewlineFold(cps), <<>>)
RECURSIVE StripL(_,_)
StripL(l, sp) == IF l # <<>> /\ Head(l) \in sp THEN StripL(Tail(l), sp) ELSE l
RECURSIVE StripR(_,_)
StripR(l, sp) == IF l # <<>> /\ l[Len(l)] \in sp THEN StripR(SubSeq(l, 1, Len(l) - 1), sp) ELSE l
Strip(l, sp) == StripR(StripL(l, sp), sp)

InitParser == [header |-> FALSE, acc |-> <<>>, status |-> "run"]
\* a sequence line: residues and '*' kept, space and ASCII digits dropped, anything else rejects
LineChars(l) == SelectSeq(l, LAMBDA c : c \in AACodes \/ c = STAR)
LineBad(l) == \E i \in 1..Len(l) : l[i] \notin AACodes /\ l[i] # STAR /\ l[i] # SPACE /\ l[i] \notin Digits
LineStep(st, raw, sp) ==
  LET l == Strip(raw, sp) IN
  IF st.status # "run" THEN st
  ELSE IF l = <<>> THEN st                                                     \* BlankLine
  ELSE IF l[1] = GT THEN (IF st.header THEN [st EXCEPT !.status = "reject"]    \* second header
                          ELSE [st EXCEPT !.header = TRUE])                    \* HeaderLine
  ELSE IF LineBad(l) THEN [st EXCEPT !.status = "reject"]                      \* SeqLine, bad character
  ELSE [st EXCEPT !.acc = @ \o LineChars(l)]                                   \* SeqLine
Stars(acc) == Cardinality({i \in 1..Len(acc) : acc[i] = STAR})
Finish(st) ==
  IF st.status = "reject" THEN [ok |-> FALSE, seq |-> <<>>]
  ELSE IF Stars(st.acc) = 0 THEN [ok |-> TRUE, seq |-> st.acc]
  ELSE IF Stars(st.acc) = 1 /\ st.acc[Len(st.acc)] = STAR THEN [ok |-> TRUE, seq |-> SubSeq(st.acc, 1, Len(st.acc) - 1)]
  ELSE [ok |-> FALSE, seq |-> <<>>]
RECURSIVE RunLines(_,_,_)
RunLines(st, ls, sp) == IF ls = <<>> THEN st ELSE RunLines(LineStep(st, Head(ls), sp), Tail(ls), sp)
ParseFile(cps, sp) == Finish(RunLines(InitParser, Lines(cps), sp))
=============================================================================
