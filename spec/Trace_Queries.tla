---------------------------- MODULE Trace_Queries ----------------------------
(***************************************************************************)
(* Validation of recorded read-only queries against the functional part of *)
(* the specification.  A trace is one object (its residue sequence) and    *)
(* the queries made on it with their replies.                              *)
(***************************************************************************)
EXTENDS TraceBase, Patterning, Composition, Profiles, ObjectFunctions, Titration
VARIABLES t, l, verdict
vars == <<t, l, verdict>>

SetOf(sq) == SetOfSeq(sq)

\* sqrt table supplied by the harness, verified here before use:
\* SqrtTab[d]^2 <= d * 10^30 < (SqrtTab[d] + 1)^2
SqrtOK(d) == LET r == Input.sqrt[d]  dd == BMul(BFromNat(d), BPow10(30)) IN
             BLe(BMul(r, r), dd) /\ BLt(dd, BMul(BAdd(r, BOne), BAdd(r, BOne)))
RECURSIVE SCDSum(_,_,_)
SCDSum(x, lo, hi) ==
  IF lo > hi THEN RZero
  ELSE IF lo = hi THEN LET c == SCDCoeff(x, lo) IN
         IF c = 0 THEN RZero ELSE RMk(ISgn(c), BMulNat(Input.sqrt[lo], IAbs(c)), D15)
  ELSE LET mid == (lo + hi) \div 2 IN RAdd(SCDSum(x, lo, mid), SCDSum(x, mid+1, hi))
SCD(x) == RMul(SCDSum(x, 1, Len(x) - 1), RFrac(1, Len(x)))

\* kappa reply: sentinel exactly; otherwise the clamped ratio, either branch within 1e-9 of a clamp edge
KappaJudge(r, x) ==
  LET p == NPos(x)  n == NNeg(x)  z == NNeut(x)
      mn == DeltaMaxNum(p, n, z)  dn == DeltaNum(x)
      raw == RMk(1, dn, mn)
  IN IF mn = BZero THEN (IF REq(r, KappaSentinel) THEN OK ELSE "kappa-sentinel")
     ELSE IF RClose(r, Clamp(raw)) \/ ((RNear(raw, ROne) \/ RNear(raw, RFrac(11, 10))) /\ (RClose(r, ROne) \/ RClose(r, raw)))
          THEN (IF KappaInRange(Clamp(raw)) THEN OK ELSE "known:K1")
          ELSE "kappa-ratio"

QR(x) == RFrac(x[1], x[2])
RowOK(rv, prof) == Len(rv) = Len(prof) /\ \A j \in 1..Len(prof) : rv[j].s \in {-1, 0, 1} /\ RClose(RFromFx(rv[j]), QR(prof[j]))
JudgeLinear(seq, e) ==
  LET N == Len(seq) IN
  IF e.w > N THEN (IF e.exc THEN OK ELSE "window-longer-than-sequence-answered")
  ELSE IF e.exc THEN "profile-raised"
  ELSE IF e.pos # [j \in 1..N |-> j] THEN "profile-positions"
  ELSE IF e.q = "linear" THEN (IF RowOK(e.rv, StatProfile(e.stat, seq, e.w)) THEN OK ELSE "profile-" \o e.stat)
  ELSE LET grps == IF e.default THEN DefaultGroups ELSE [g \in 1..Len(e.groups) |-> SetOf(e.groups[g])] IN
       IF Len(e.rows) # Len(grps) THEN "composition-rows"
       ELSE IF \A g \in 1..Len(grps) : RowOK(e.rows[g], GroupProfile(seq, e.w, grps[g])) THEN OK ELSE "profile-composition"

\* ---- C12 / C11 ----
FxOK(v) == v.s \in {-1, 0, 1}
SameClasses(rs, seq, size) == \A i, j \in 1..Len(seq) : (rs[i] = rs[j]) <=> (GroupOf(size, seq[i]) = GroupOf(size, seq[j]))
JudgeAlphabet(seq, e) ==
  CASE e.q = "alphabetsize" -> IF (e.size \in AlphabetSizes) = ~e.exc THEN OK ELSE "alphabet-size-acceptance"
    [] e.q = "alphabetmap" ->
         IF ~(\A r \in Residues : r \in DOMAIN e.map /\ e.map[r] \in Residues) THEN "alphabet-map-not-residues"
         ELSE IF ~ImplementsPartition([r \in Residues |-> e.map[r]], e.size) THEN "alphabet-partition"
         ELSE IF SetOf(e.alphabet) # {e.map[r] : r \in Residues} \/ Len(e.alphabet) # e.size THEN "alphabet-representatives"
         ELSE OK
    [] e.q = "reduce" ->
         IF e.exc THEN "reduce-raised"
         ELSE IF Len(e.rs) # Len(seq) THEN "reduce-length"
         ELSE IF ~(\A i \in 1..Len(seq) : e.rs[i] \in GroupOf(e.size, seq[i])) THEN "reduce-not-own-group"
         ELSE IF ~SameClasses(e.rs, seq, e.size) THEN "reduce-partition" ELSE OK
    [] e.q = "userreduce" ->
         LET valid == e.isdict /\ UserAlphabetValid(e.ua) IN
         IF ~valid THEN (IF e.exc THEN OK ELSE "user-alphabet-accepted-though-invalid")
         ELSE IF e.exc THEN "user-alphabet-rejected-though-valid"
         ELSE IF e.rs # Reduce(e.ua, seq) THEN "user-alphabet-not-applied-residue-by-residue"
         ELSE IF SetOf(e.alphabet) # {e.ua[r] : r \in Residues} THEN "user-alphabet-representatives" ELSE OK

EntRow(k, W) == (CHOOSE tt \in SetOf(Input.ent) : tt.k = k /\ tt.w = W).h
RECURSIVE WFSum(_,_,_,_)
WFSum(win, letters, k, acc) ==
  IF letters = {} THEN acc
  ELSE LET a == CHOOSE x \in letters : TRUE
           cnt == Cardinality({i \in 1..Len(win) : win[i] = a}) IN
       WFSum(win, letters \ {a}, k, RAdd(acc, RMk(1, EntRow(k, Len(win))[cnt + 1], D15)))
JudgeComplexity(seq, e) ==
  LET N == Len(seq) IN
  IF ~e.knowntype \/ e.w > N THEN (IF e.exc THEN OK ELSE "complexity-should-reject")
  ELSE IF e.exc THEN "complexity-raised"
  ELSE LET K == NumWindows(N, e.w, e.s)
           m == IF e.size = 0 THEN e.ua ELSE CanonMap(e.size)
           red == Reduce(m, seq)
           letters == {m[r] : r \in Residues}
           k == Cardinality(letters)
           win(j) == SubSeq(red, WindowStart(j, e.s), WindowStart(j, e.s) + e.w - 1)
           OnePlus == RAdd(ROne, Eps9)
       IN IF Len(e.rv) # K \/ Len(e.pos) # K \/ Len(e.iso) # K THEN "complexity-window-count"
          ELSE IF ~PosRowOK(e.pos, N, K) THEN "complexity-positions"
          ELSE IF ~(\A j \in 1..K : FxOK(e.rv[j]) /\ FxOK(e.iso[j])) THEN "complexity-not-finite"
          ELSE IF \E j \in 1..K : ~(RLe(RNeg(Eps9), RFromFx(e.rv[j])) /\ RLe(RFromFx(e.rv[j]), OnePlus)) THEN "complexity-range"
          ELSE IF \E j \in 1..K : ~RClose(RFromFx(e.rv[j]), RFromFx(e.iso[j])) THEN "complexity-locality"
          ELSE IF e.type = "WF" /\ k >= 2 /\ \E j \in 1..K : ~RClose(RFromFx(e.rv[j]), WFSum(win(j), letters, k, RZero)) THEN "wf-entropy"
          ELSE OK

\* ---- C16: values derived from the phosphosites (e.sites: the list get_phosphosites() returned) ----
JudgePhos(seq, e) ==
  CASE e.q = "phosphoseq" -> IF e.rs = PhosphoSeq(seq, e.sites) THEN OK ELSE "phosphosequence"
    [] e.q = "stysites" -> IF e.rs = SelectSeq([i \in 1..Len(seq) |-> i], LAMBDA i : seq[i] \in Phosphorylatable) THEN OK ELSE "phosphorylatable-sites"
    [] e.q = "kappaphos" -> LET j == KappaJudge(RFromFx(e.r), ChargePattern(PhosphoSeq(seq, e.sites))) IN
                            IF j = OK \/ IsKnown(j) THEN j ELSE "kappa-after-phosphorylation"
    [] e.q = "phosdist" ->
         LET n == Len(e.sites) IN
         IF Len(e.entries) # Pow2(n) THEN "distribution-size"
         ELSE IF \E k \in 1..Len(e.entries) : e.entries[k].status # [j \in 1..n |-> Bit(k - 1, j, n)] THEN "distribution-order"
         ELSE IF \E k \in 1..Len(e.entries) :
                   LET sub == SubstSeq(seq, e.sites, k - 1)  en == e.entries[k] IN
                   \/ ~(KappaJudge(RFromFx(en.kappa), ChargePattern(sub)) = OK \/ IsKnown(KappaJudge(RFromFx(en.kappa), ChargePattern(sub))))
                   \/ ~RClose(RFromFx(en.fplus), Param("fraction_positive", sub))
                   \/ ~RClose(RFromFx(en.fminus), Param("fraction_negative", sub))
                   \/ ~RClose(RFromFx(en.fcr), Param("FCR", sub))
                   \/ ~RClose(RFromFx(en.ncpr), Param("NCPR", sub))
                   \/ ~RClose(RFromFx(en.hyd), Param("mean_hydropathy", sub))
              THEN "distribution-values"
         ELSE OK

\* ---- C09 ----
PowTab(j) == (CHOOSE pr \in SetOf(Input.pow10) : pr[1] = j)[2]
\* every table entry is verified once (constant-level, evaluated at start-up): T^10 <= 10^(j+200) < (T+1)^10
PowTableVerified == "pow10" \in DOMAIN Input => \A pr \in SetOf(Input.pow10) : Pow10Checked(pr[2], pr[1])
JudgePH(seq, e) ==
  IF e.q = "pi" THEN
     (IF e.exc THEN "isoelectric-point-raised-or-did-not-terminate"
      ELSE IF NTitratable(seq) = 0 THEN (IF REq(RFromFx(e.r), RFromInt(7)) THEN OK ELSE "isoelectric-point-without-titratable-residues")
      ELSE LET fr == [r \in Titratable |-> RFromFx(e.frac[r])] IN
           IF RLe(RAbs(MeanTitratableCharge(seq, fr)), RAdd(RFrac(2, 100), Eps9)) THEN OK ELSE "isoelectric-point-does-not-neutralise")
  ELSE LET ph == RFromFx(e.ph)
           inrange == RLe(RZero, ph) /\ RLe(ph, RFromInt(14)) IN
       IF ~inrange THEN (IF e.exc THEN OK ELSE "pH-outside-[0,14]-accepted")
       ELSE IF e.exc THEN "pH-query-raised"
       ELSE IF e.grid /\ ~PowTableVerified THEN "machinery:pow10-table"
       ELSE LET fr == IF e.grid THEN [r \in Titratable |-> IF r \in TitratePos THEN FracPos(PowTab(e.j[r])) ELSE FracNeg(PowTab(e.j[r]))]
                      ELSE [r \in Titratable |-> RFromFx(e.frac[r])] IN
            IF ~FracsOK(fr) THEN "machinery:fractions"
            ELSE IF RClose(RFromFx(e.r), PHParam(e.name, seq, fr)) THEN OK ELSE "ph-" \o e.name

Judge(seq, e) ==
  LET x == ChargePattern(seq)
      r == RFromFx(e.r)
  IN CASE e.q = "delta"  -> IF RClose(r, Delta(x)) THEN OK ELSE "delta-value"
       [] e.q = "dmax"   -> IF RClose(r, DeltaMaxOf(x)) \/ RClose(r, DeltaMaxAlt(NPos(x), NNeg(x), NNeut(x))) THEN OK ELSE "deltamax-value"
       [] e.q = "dmaxperm" ->   \* reply (value, permutant): C03
            LET pm == e.perm  y == ChargePattern(pm) IN
            IF ~(RClose(r, DeltaMaxOf(x)) \/ RClose(r, DeltaMaxAlt(NPos(x), NNeg(x), NNeut(x)))) THEN "deltamax-value"
            ELSE IF ~(Len(pm) = Len(seq) /\ \A a \in Residues : Cardinality({i \in 1..Len(pm) : pm[i] = a}) = Cardinality({i \in 1..Len(seq) : seq[i] = a}))
                 THEN "permutant-not-a-rearrangement"
            ELSE IF ~RClose(r, Delta(y)) THEN "permutant-delta-differs" ELSE OK
       [] e.q = "kappa"  -> KappaJudge(r, x)
       [] e.q = "scd"    -> IF \A d \in 1..(Len(x)-1) : SqrtOK(d)
                            THEN (IF RClose(r, SCD(x)) THEN OK ELSE "scd-value") ELSE "machinery:sqrt-table"
       [] e.q = "omega"  -> KappaJudge(r, OmegaPattern(seq))
       [] e.q = "kappax" -> KappaJudge(r, KappaXPattern(seq, SetOf(e.g1), SetOf(e.g2)))
       [] e.q = "omegaseq" -> IF e.rs = OmegaString(seq) THEN OK ELSE "omega-sequence"
       [] e.q \in {"linear", "lincomp"} -> JudgeLinear(seq, e)
       [] e.q \in {"alphabetsize", "alphabetmap", "reduce", "userreduce"} -> JudgeAlphabet(seq, e)
       [] e.q = "complexity" -> JudgeComplexity(seq, e)
       [] e.q \in {"ph", "pi"} -> JudgePH(seq, e)
       [] e.q \in {"phosphoseq", "stysites", "kappaphos", "phosdist"} -> JudgePhos(seq, e)
       [] e.q = "param"  -> IF e.name \notin ScalarParams THEN "machinery:unknown-param"
                            ELSE IF RClose(r, Param(e.name, seq)) THEN OK ELSE "param-" \o e.name
       [] e.q = "aafrac" -> IF RClose(r, AAFraction(seq, e.aa)) THEN OK ELSE "amino-acid-fraction"
       [] e.q = "region" -> LET pp == Count(seq, Positive)  nn == Count(seq, Negative) IN
                            IF REq(r, RFromInt(RegionDoc(pp, nn, Len(seq)))) THEN OK ELSE "region"
       [] OTHER -> "machinery:unknown-query"

Tr == Traces[t]
Init == t \in 1..Len(Traces) /\ l = 0 /\ verdict = <<"run">>
Step == /\ verdict = <<"run">> /\ l < Len(Tr.ev)
        /\ LET e == Tr.ev[l+1]
               j == IF "r" \in DOMAIN e /\ e.r.s \notin {-1, 0, 1} THEN "reply-not-a-finite-number" ELSE Judge(Tr.seq, e) IN
           IF j = OK THEN l' = l + 1 /\ verdict' = verdict
           ELSE IF IsKnown(j) THEN l' = l + 1 /\ verdict' = verdict /\ PrintT(<<"KNOWN", ToJson([tid |-> Tr.tid, ev |-> l + 1, id |-> j])>>)
           ELSE l' = l /\ verdict' = <<"reject", l + 1, j>> /\ PrintT(<<"REJ", ToJson([tid |-> Tr.tid, ev |-> l + 1, clause |-> j])>>)
        /\ t' = t
Done == /\ verdict = <<"run">> /\ l = Len(Tr.ev)
        /\ verdict' = <<"accept">> /\ PrintT(<<"ACC", ToJson([tid |-> Tr.tid, n |-> l])>>)
        /\ UNCHANGED <<t, l>>
Next == Step \/ Done
Spec == Init /\ [][Next]_vars
NoReject == verdict[1] # "reject"
=============================================================================
