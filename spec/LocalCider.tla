------------------------------ MODULE LocalCider ------------------------------
(***************************************************************************)
(* localCIDER as one specification: the functional modules (definitions    *)
(* written from the documentation, next to the code-shaped computation     *)
(* routes) and the state machines (objects with their caches and shared    *)
(* defaults, the Wang-Landau loop) composed into one next-state relation.  *)
(* The file parser, the moves and the isoelectric-point search are         *)
(* functions of their inputs (SeqInput.ParseFile, Moves.Move,              *)
(* Titration.PIStep) and enter as such.                                    *)
(*                                                                         *)
(* Where each listed property lives:                                       *)
(*  C01 Patterning.Kappa / KappaInRange; MC_Patterning.SentinelIffNoVariance, KappaWellDefined, KappaRangeOrK1 *)
(*  C02 Patterning.Delta = DeltaDef; MC_Patterning.DeltaIsDefinition, DeltaZeroShort                          *)
(*  C03 Patterning.Family / DeltaMax; MC_DeltaMax.PermAttains, DMaxSymmetric, RegimePartition, FamilyMirror     *)
(*  C04 Composition.Param, AAFraction; MC_Composition.SumIsCountForm, PermutationInvariant, Identities         *)
(*  C05 MC_Patterning.ReverseInvariant, InvertInvariant, DMaxSymmetric                                         *)
(*  C06 Patterning.OmegaPattern, KappaXPattern; MC_Recode.SwapLaw, ComplementLaw, OmegaIsKappaX, KappaIsKappaX *)
(*  C07 Patterning.SCDCoeff; MC_Patterning.SCDZeroFewCharges; Trace_Queries.SCD                                *)
(*  C08 Region.RegionDoc / RegionCode; Proofs.RegionTotal, RegionSign; MC_Region.CodeIsDoc, Total, Sign         *)
(*  C09 Titration.PHParam, PIStep; MC_PI.NeverRaises, ResultInZone, Terminates                                 *)
(*  C10 Profiles.ProfileDoc / ProfileCode; MC_Profiles.FlanksAgree, CodeIsDoc, WholeWindow, DeltaFromProfiles   *)
(*  C11 Profiles.NumWindows, PosRowOK, LCValue, LZWValue, WFCounts; MC_Complexity.Geometry, Values             *)
(*  C12 Profiles.Partition, ImplementsPartition; MC_Alphabets.*                                                *)
(*  C13 SeqInput.Normalise, Accepts; MC_SeqInput.*                                                             *)
(*  C14 SeqInput.LineStep, Finish, ParseFile; MC_Parser.MachineIsFunction, MachineIsDoc, RejectIsSticky        *)
(*  C15 SeqObject.HistoryIndependent, CacheSound, ReadOnlyFrame, CrossObjectFrame (below: LibFrame)            *)
(*  C16 ObjectFunctions.SetSitesSpec / SetSitesDoc, PhosphoSeq, SubstSeq; SeqObject.SitesValid, NoRepeats, SetSemantics *)
(*  C17 Moves.Move, Rearrangement, FrozenKept; MC_Moves.OnlyRearranges, KeepsFrozen, SwapsSucceed              *)
(*  C18 WangLandau.NeverLeavesWindow, CountRule, FlatRule, GIncrement, StopRule (below: under interleaving)    *)
(*  C19 Plots.InClosedI / InInteriorI; MC_Plots.MarkerInOwnRegion, NotInsideAnother; Trace_Plots               *)
(*  C20 ObjectFunctions.Render, ValidPalette; MC_Render.*; SeqObject.PaletteAtomic, PaletteTotal               *)
(***************************************************************************)
EXTENDS SeqObject, WangLandau, Moves, Composition, Profiles, SeqInput, Titration, Plots, TLC
CONSTANTS WLConfigs
VARIABLES wlOn          \* is a Wang-Landau run in progress (its variables are WangLandau's)
libvars == <<vars, wlvars, wlOn>>

WLIdle(c) == /\ cfg = c /\ bin = 0 /\ g = [b \in 0..(c.nb - 1) |-> 0] /\ H = [b \in 0..(c.nb - 1) |-> 0]
             /\ k = 0 /\ nstep = 0 /\ phase = "idle" /\ gprev = [b \in 0..(c.nb - 1) |-> 0]
LibInit == Init /\ wlOn = FALSE /\ \E c \in WLConfigs : WLIdle(c)
\* a public call on an object; the sampler's state is untouched
ObjectCall == Next /\ UNCHANGED <<wlvars, wlOn>>
\* initializeWangLandauParameters + run on a live object's sequence: the run works on its own Sequence objects
StartWL == /\ ~wlOn /\ \E o \in ObjIds : objs[o].alive
           /\ \E c \in WLConfigs, b0 \in 0..2 : b0 < c.nb /\ WLSet(c, b0)
           /\ wlOn' = TRUE /\ UNCHANGED vars
WLRun == wlOn /\ WLNext /\ UNCHANGED <<vars, wlOn>>
WLEnd == wlOn /\ phase = "done" /\ wlOn' = FALSE /\ UNCHANGED <<vars, wlvars>>
LibNext == ObjectCall \/ StartWL \/ WLRun \/ WLEnd
LibSpec == LibInit /\ [][LibNext]_libvars

\* the components do not interfere: a sampler step never changes an object, an object call never changes the sampler
LibFrame == [][(WLRun \/ StartWL \/ WLEnd) => UNCHANGED <<objs, shared>>]_libvars
SamplerFrame == [][ObjectCall => UNCHANGED wlvars]_libvars
\* the per-component properties hold in the composition
LibInvariants == HistoryIndependent /\ CacheSound /\ SitesValid /\ NoRepeats /\ PaletteTotal
                 /\ (wlOn => (GIncrement /\ StopRule /\ KBounded))
\* the sampler's action properties, restricted to the steps of a run (a new run may start in any bin)
LibNeverLeavesWindow == [][WLRun => (Inside(bin) => Inside(bin'))]_libvars
LibCountRule == [][(WLRun /\ phase = "step") =>
                     \/ g' = g /\ H' = H
                     \/ g' = [g EXCEPT ![bin'] = @ + Unit(k)] /\ H' = [H EXCEPT ![bin'] = @ + 1]]_libvars
LibDepth == TLCGet("level") <= 7
=============================================================================
