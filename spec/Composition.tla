----------------------------- MODULE Composition -----------------------------
(***************************************************************************)
(* Composition parameters (sums of published per-residue values divided by *)
(* the length), the diagram-of-states region as documented and as coded.   *)
(***************************************************************************)
EXTENDS Rat, Residues, FiniteSets, Region

Count(seq, S) == Cardinality({i \in 1..Len(seq) : seq[i] \in S})
CountRes(seq, a) == Count(seq, {a})

RECURSIVE TabSumFrom(_,_,_)
\* sum over the residues of seq of the integer table tab, from the counts (20 terms)
TabSumFrom(seq, tab, k) == IF k > 20 THEN 0
                           ELSE CountRes(seq, ResidueOrder[k]) * tab[ResidueOrder[k]] + TabSumFrom(seq, tab, k+1)
TabSum(seq, tab) == TabSumFrom(seq, tab, 1)
RECURSIVE TabSumPos(_,_,_)
\* the same sum position by position (the definition: "sum over residues")
TabSumPos(seq, tab, i) == IF i > Len(seq) THEN 0 ELSE tab[seq[i]] + TabSumPos(seq, tab, i+1)

\* every scalar composition parameter as an exact rational; q names the public getter
Param(q, seq) ==
  LET N == Len(seq)
      p == Count(seq, Positive)  n == Count(seq, Negative) IN
  CASE q = "countPos"  -> RFromInt(p)
    [] q = "countNeg"  -> RFromInt(n)
    [] q = "countNeut" -> RFromInt(N - p - n)
    [] q = "fraction_positive" -> RFrac(p, N)
    [] q = "fraction_negative" -> RFrac(n, N)
    [] q = "FCR"  -> RFrac(p + n, N)
    [] q = "NCPR" -> RFrac(p - n, N)
    [] q = "mean_net_charge" -> RFrac(IAbs(p - n), N)
    [] q = "fraction_expanding" -> RFrac(Count(seq, Expanding), N)
    [] q = "fraction_disorder_promoting" -> RFrac(Count(seq, DisorderPromoting), N)
    [] q = "mean_hydropathy" -> RFrac(TabSum(seq, KDShift10), 10 * N)
    [] q = "uversky_hydropathy" -> RFrac(TabSum(seq, KDShift10), 90 * N)
    [] q = "WW_hydropathy" -> RFrac(TabSum(seq, WW100), 100 * N)
    [] q = "PPII_hilser" -> RFrac(TabSum(seq, PPIIHilser), 1000 * N)
    [] q = "PPII_creamer" -> RFrac(TabSum(seq, PPIICreamer), 1000 * N)
    [] q = "PPII_kallenbach" -> RFrac(TabSum(seq, PPIIKallenbach), 1000 * N)
    [] q = "molecular_weight" -> RFrac(TabSum(seq, MW10) - 180 * (N - 1), 10)
    [] q = "length" -> RFromInt(N)
ScalarParams == {"countPos", "countNeg", "countNeut", "fraction_positive", "fraction_negative", "FCR", "NCPR",
                 "mean_net_charge", "fraction_expanding", "fraction_disorder_promoting", "mean_hydropathy",
                 "uversky_hydropathy", "WW_hydropathy", "PPII_hilser", "PPII_creamer", "PPII_kallenbach",
                 "molecular_weight", "length"}
AAFraction(seq, a) == RFrac(CountRes(seq, a), Len(seq))

=============================================================================
