---------------------------- MODULE MC_SeqInput ----------------------------
(***************************************************************************)
(* C13 bounded instance: every string of up to MaxLen tokens over ten      *)
(* character classes (represented by one code point each) is a state.      *)
(***************************************************************************)
EXTENDS SeqInput, TLC, Json
CONSTANTS MaxLen
VARIABLE text
\* K E k space tab 1 - X * sharp-s
Tokens == {75, 69, 107, 32, 9, 49, 45, 88, 42, 223}
Up == (107 :> <<75>>) @@ (223 :> <<83, 83>>)
Sp == {32, 9, 10, 11, 12, 13}
Init == text = <<>>
Next == Len(text) < MaxLen /\ \E c \in Tokens : text' = Append(text, c)
Spec == Init /\ [][Next]_text
norm == Normalise(text, Up, Sp)
\* design-level facts about normalisation
NormalisedIsClean == \A i \in 1..Len(norm) : norm[i] \notin Sp
AcceptedIsWord == Accepts(text, Up, Sp) => (\A i \in 1..Len(norm) : norm[i] \in AACodes) /\ Len(norm) >= 1
Idempotent == Accepts(text, Up, Sp) => (Normalise(norm, Up, Sp) = norm /\ Accepts(norm, Up, Sp))
RejectsForeign == (\E i \in 1..Len(text) : text[i] \in {49, 45, 88, 42}) => ~Accepts(text, Up, Sp)
BlankRejected == (\A i \in 1..Len(text) : text[i] \in Sp) => ~Accepts(text, Up, Sp)
WhitespaceIrrelevant == Accepts(text, Up, Sp) = Accepts(SelectSeq(text, LAMBDA c : c \notin Sp), Up, Sp)
Emit == PrintT(<<"REC", ToJson([text |-> text, ok |-> Accepts(text, Up, Sp), seq |-> IF Accepts(text, Up, Sp) THEN norm ELSE <<>>])>>)
=============================================================================
