------------------------------ MODULE MC_Moves ------------------------------
(***************************************************************************)
(* C17 bounded instance: every sequence over Alphabet up to MaxLen, and    *)
(* for the move MoveName every frozen set and every outcome of its random  *)
(* draws (one iteration of the two retry loops), is a state.               *)
(***************************************************************************)
EXTENDS Moves, Json
CONSTANTS Alphabet, MaxLen, MoveName, MaxFrozen
VARIABLES seq, case      \* case = <<>> while the sequence is being built, else [frozen, tape, out]
vars == <<seq, case>>

Perms(k) == {p \in [1..k -> 0..(k-1)] : \A i, j \in 1..k : i # j => p[i] # p[j]}
FrozenSets == {f \in SUBSET Idx(seq) : Cardinality(f) <= MaxFrozen}
SeqOfFn(f, k) == [i \in 1..k |-> f[i]]
Zero53 == <<>>
\* all tapes of one pass through the move, given the sequence and the frozen set
Tapes(f) ==
  LET N == Len(seq)
      cp == ChargePattern(seq)
      P == {i \in Idx(seq) : At(cp, i) = 1} \ f
      Ng == {i \in Idx(seq) : At(cp, i) = -1} \ f
      Z == {i \in Idx(seq) : At(cp, i) = 0} \ f
      cls(c) == IF c = 1 THEN P ELSE IF c = 2 THEN Ng ELSE Z
  IN
  CASE MoveName = "swapRes" -> {<< <<"arg", i>>, <<"arg", j>> >> : i \in Idx(seq), j \in Idx(seq)}
    [] MoveName = "full_shuffle" ->
         LET k == N - Cardinality(f) IN {<< <<"shuffle", SeqOfFn(p, k)>> >> : p \in Perms(k)}
    [] MoveName = "swapRandChargeRes" ->
         IF Z = {} THEN (IF P = {} \/ Ng = {} THEN {<<>>}
                         ELSE {<< <<"sample", <<a>>>>, <<"sample", <<b>>>> >> : a \in 0..(Cardinality(P)-1), b \in 0..(Cardinality(Ng)-1)})
         ELSE IF Ng = {} THEN (IF P = {} THEN {<<>>}
                               ELSE {<< <<"sample", <<a>>>>, <<"sample", <<b>>>> >> : a \in 0..(Cardinality(P)-1), b \in 0..(Cardinality(Z)-1)})
         ELSE IF P = {} THEN {<< <<"sample", <<a>>>>, <<"sample", <<b>>>> >> : a \in 0..(Cardinality(Ng)-1), b \in 0..(Cardinality(Z)-1)}
         ELSE UNION {UNION {{<< <<"sample", <<t1, t2>>>>, <<"sample", <<a>>>>, <<"sample", <<b>>>> >> :
                                a \in 0..(Cardinality(cls(t1 + 1))-1), b \in 0..(Cardinality(cls(t2 + 1))-1)} :
                            t2 \in (0..2) \ {t1}} : t1 \in 0..2}
    [] MoveName = "permute_block_swap" ->
         IF N <= 3 THEN {<<>>}
         ELSE UNION {UNION {{<< <<"randint", bs>>, <<"sample", <<a, b>>>> >> : b \in (0..(N - 2*(bs-1) - 1)) \ {a}} :
                            a \in 0..(N - 2*(bs-1) - 1)} : bs \in 2..(N \div 2)}
    [] MoveName = "permute_cluster_charges" ->
         LET np == Cardinality({i \in Idx(seq) : At(seq, i) \in Positive})
             nn == Cardinality({i \in Idx(seq) : At(seq, i) \in Negative})
             us == IF np >= 2 /\ nn >= 2 THEN {Zero53, Half53} ELSE {<<-1>>}
             pre(u) == IF u = <<-1>> THEN <<>> ELSE << <<"random", u>> >>
             pos(u) == IF nn < 2 THEN TRUE ELSE IF np < 2 THEN FALSE ELSE u = Zero53
             letters(u) == IF pos(u) THEN Positive ELSE Negative
             nch(u) == IF pos(u) THEN np ELSE nn
         IN IF np < 2 /\ nn < 2 THEN {<<>>}
            ELSE UNION {UNION {UNION {
                   LET ps == PoolSize(seq, letters(u), size, centre) IN
                   IF ps < size THEN {pre(u) \o << <<"randint", size>>, <<"randint", centre>> >>}        \* inner loop would redraw: tape ends
                   ELSE {pre(u) \o << <<"randint", size>>, <<"randint", centre>>, <<"sample", Asc(sub)>> >> :
                           sub \in {x \in SUBSET (0..(ps-1)) : Cardinality(x) = size}}
                 : centre \in (size \div 2)..(N - CeilHalf(size))} : size \in 2..nch(u)} : u \in us}

Init == seq = <<>> /\ case = <<>>
Extend == case = <<>> /\ Len(seq) < MaxLen /\ \E a \in Alphabet : seq' = Append(seq, a) /\ case' = case
Choose == /\ case = <<>> /\ Len(seq) >= 1
          /\ \E f \in FrozenSets : \E tp \in Tapes(f) :
               case' = [frozen |-> f, tape |-> tp, out |-> Move(MoveName, seq, f, tp)]
          /\ seq' = seq
Next == Extend \/ Choose
Spec == Init /\ [][Next]_vars

HasChild == case # <<>> /\ case.out.st \in {"child", "tie"}
OnlyRearranges == HasChild => Rearrangement(seq, case.out.seq)
\* demanded of the shuffle and the charge swap; block swap and clustering ignore `frozen' (finding K2)
KeepsFrozen == (HasChild /\ MoveName \in {"full_shuffle", "swapRandChargeRes"}) => FrozenKept(seq, case.out.seq, case.frozen)
SwapsSucceed == (case # <<>> /\ MoveName \in {"full_shuffle", "swapRandChargeRes", "swapRes"}) => case.out.st \in {"child", "self"}
UsesWholeTape == (case # <<>> /\ case.out.st \in {"child", "error", "tie"}) => case.out.used = Len(case.tape)
SelfOnlyWhenNothingToSwap == (case # <<>> /\ case.out.st = "self") => MoveName = "swapRandChargeRes"
\* the charge composition is unchanged, so a delta-max carried over from the parent is the child's
CarriedDMaxValid == HasChild => LET a == ChargePattern(seq)  b == ChargePattern(case.out.seq) IN
                       NPos(a) = NPos(b) /\ NNeg(a) = NNeg(b)
Emit == case # <<>> => PrintT(<<"REC", ToJson([move |-> MoveName, seq |-> seq, frozen |-> Asc(case.frozen), tape |-> case.tape,
                                               st |-> case.out.st, child |-> case.out.seq,
                                               changed |-> DeltaNum(ChargePattern(case.out.seq)) # DeltaNum(ChargePattern(seq))])>>)
=============================================================================
