--------------------------- MODULE ObjectFunctions ---------------------------
(***************************************************************************)
(* State-free parts of the object model: the phosphosite update rule, the  *)
(* phospho-sequence and the on/off substitutions of the kappa distribution,*)
(* palette validity, HTML rendering as a token sequence.  Shared by the    *)
(* object state machine (SeqObject) and the query trace specification.     *)
(***************************************************************************)
EXTENDS Integers, Sequences, FiniteSets, Residues
SetOfSeq(sq) == {sq[i] : i \in 1..Len(sq)}

(***************************************************************************)
(* phosphosites                                                            *)
(***************************************************************************)
RECURSIVE SetSitesSpec(_,_,_)
SetSitesSpec(seq, cur, arg) ==
  IF arg = <<>> THEN cur
  ELSE LET site == Head(arg)
           ok == site \in 1..Len(seq) /\ seq[site] \in Phosphorylatable /\ site \notin SetOfSeq(cur) IN
       SetSitesSpec(seq, IF ok THEN Append(cur, site) ELSE cur, Tail(arg))
PhosphoSeq(seq, sites) == [i \in 1..Len(seq) |-> IF i \in SetOfSeq(sites) THEN "E" ELSE seq[i]]
\* on/off assignment number k (0 .. 2^n - 1) in binary counting order, first site = most significant bit
Pow2(n) == IF n = 0 THEN 1 ELSE LET RECURSIVE P(_) P(j) == IF j = 0 THEN 1 ELSE 2 * P(j-1) IN P(n)
Bit(k, j, n) == (k \div Pow2(n - j)) % 2                       \* j = 1..n
SubstSeq(seq, sites, k) == [i \in 1..Len(seq) |->
   IF \E j \in 1..Len(sites) : sites[j] = i /\ Bit(k, j, Len(sites)) = 1 THEN "E" ELSE seq[i]]

(***************************************************************************)
(* palette                                                                 *)
(***************************************************************************)
\* an argument is a function from some set of keys to values
ValidPalette(d) == \A r \in Residues : r \in DOMAIN d /\ d[r] \in HTMLColours
Restrict(d) == [r \in Residues |-> d[r]]

(***************************************************************************)
(* rendering: a sequence of tokens <<"sp">>, <<"br">>, <<"res", colour, letter>> *)
(***************************************************************************)
RECURSIVE RenderFrom(_,_,_)
RenderFrom(seq, pal, i) ==
  IF i > Len(seq) THEN <<>>
  ELSE (IF (i - 1) % 10 = 0 THEN << <<"sp">> >> ELSE <<>>)
       \o (IF (i - 1) % 50 = 0 THEN << <<"br">> >> ELSE <<>>)
       \o << <<"res", pal[seq[i]], seq[i]>> >> \o RenderFrom(seq, pal, i + 1)
Render(seq, pal) == RenderFrom(seq, pal, 1)
StripMarkup(toks) == LET rs == SelectSeq(toks, LAMBDA tk : tk[1] = "res") IN [i \in 1..Len(rs) |-> rs[i][3]]


(***************************************************************************)
(* the phosphosite rule stated declaratively (C16): what one                *)
(* set_phosphosites(arg) call may do to the list `cur'                      *)
(***************************************************************************)
ValidSite(seq, site) == site \in 1..Len(seq) /\ seq[site] \in Phosphorylatable
FirstIndex(arg, v) == CHOOSE i \in 1..Len(arg) : arg[i] = v /\ \A j \in 1..(i-1) : arg[j] # v
SetSitesDoc(seq, cur, arg, new) ==
  /\ Len(new) >= Len(cur) /\ SubSeq(new, 1, Len(cur)) = cur                              \* earlier sites keep their place
  /\ SetOfSeq(new) = SetOfSeq(cur) \cup {v \in SetOfSeq(arg) : ValidSite(seq, v)}         \* exactly the valid requested ones are added
  /\ \A i, j \in 1..Len(new) : i # j => new[i] # new[j]                                   \* without repeats
  /\ \A i, j \in (Len(cur)+1)..Len(new) : i < j => FirstIndex(arg, new[i]) < FirstIndex(arg, new[j])   \* in first-set order
=============================================================================
