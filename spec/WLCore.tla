------------------------------- MODULE WLCore -------------------------------
(***************************************************************************)
(* The normal Wang-Landau loop over kappa bins as a state machine.         *)
(*                                                                         *)
(* ln f is 2^-k exactly (f starts at e and is square-rooted), so g is kept *)
(* in integer units of 2^-KMax: one counted step adds Unit(k) = 2^(KMax-k).*)
(* cfg (constant along a behaviour) = [nb, rmin, rmax, nbt, nflat, kmax,   *)
(* fnum, fden, conv]: bins 0..nb-1, window rmin..rmax of nbt bins, flat    *)
(* check every nflat steps, flatness criterion fnum/fden, convergence      *)
(* threshold conv = floor(ln(convergence) * 2^kmax) in units.              *)
(* The proposal's bin and the accept decision are parameters: the random   *)
(* choices (model checking: every allowed choice; trace validation: the    *)
(* logged ones).                                                           *)
(*                                                                         *)
(* This module is the machine itself with the two arithmetic helpers as    *)
(* operator parameters (Pow2N(n) = 2^n, SumOver(f, S) = sum of f over S):  *)
(* WangLandau instantiates it with their recursive definitions for TLC,    *)
(* ProofsWL proves its invariants for every configuration with TLAPS       *)
(* (which does not accept RECURSIVE definitions).                          *)
(***************************************************************************)
EXTENDS Integers, Sequences, FiniteSets
CONSTANTS Pow2N(_), SumOver(_, _)
VARIABLES cfg, bin, g, H, k, nstep, phase, gprev
wlvars == <<cfg, bin, g, H, k, nstep, phase, gprev>>

Unit(j) == Pow2N(cfg.kmax - j)
Bins == 0..(cfg.nb - 1)
Window == cfg.rmin..cfg.rmax
Inside(b) == b \in Window
Zeros == [b \in Bins |-> 0]
Running == Unit(k) > cfg.conv                 \* f > convergence
\* ln of the acceptance probability min(1, exp(g_old - g_new)), in units (<= 0)
LnP(old, new) == IF g[old] - g[new] < 0 THEN g[old] - g[new] ELSE 0
\* every bin of the window holds at least fnum/fden of the mean count:  H[b] * nbt * fden >= fnum * sum
BinFlat(b) == SumOver(H, Window) > 0 /\ H[b] * cfg.nbt * cfg.fden >= cfg.fnum * SumOver(H, Window)
AllFlat == \A b \in Window : BinFlat(b)
NumFlat == Cardinality({b \in Window : BinFlat(b)})

WLInit(c, b0) == /\ cfg = c /\ bin = b0 /\ g = [b \in 0..(c.nb - 1) |-> 0] /\ H = [b \in 0..(c.nb - 1) |-> 0]
                 /\ k = 0 /\ nstep = 0 /\ phase = "step" /\ gprev = [b \in 0..(c.nb - 1) |-> 0]

\* the same as a next-state assignment (used by the trace specification when the init event arrives)
WLSet(c, b0) == /\ cfg' = c /\ bin' = b0 /\ g' = [b \in 0..(c.nb - 1) |-> 0] /\ H' = [b \in 0..(c.nb - 1) |-> 0]
                /\ k' = 0 /\ nstep' = 0 /\ phase' = "step" /\ gprev' = [b \in 0..(c.nb - 1) |-> 0]

\* one Monte Carlo step: proposal in bin nbin, decision acc
WLStep(nbin, acc) ==
  /\ phase = "step" /\ Running /\ nbin \in Bins
  /\ LET skip == ~Inside(nbin) IN
     /\ skip => ~acc                                     \* never moves outside the requested range
     /\ (~skip /\ LnP(bin, nbin) = 0) => acc             \* probability 1
     /\ bin' = IF acc THEN nbin ELSE bin
     /\ IF skip THEN g' = g /\ H' = H                    \* a skipped step is not counted
        ELSE g' = [g EXCEPT ![bin'] = @ + Unit(k)] /\ H' = [H EXCEPT ![bin'] = @ + 1]
  /\ nstep' = nstep + 1
  /\ phase' = IF (nstep + 1) % cfg.nflat = 0 THEN "flat" ELSE "step"
  /\ UNCHANGED <<cfg, k, gprev>>
\* the scheduled flatness check
FlatCheck ==
  /\ phase = "flat"
  /\ IF AllFlat THEN /\ k' = k + 1 /\ H' = Zeros /\ gprev' = g
                     /\ phase' = IF Pow2N(cfg.kmax - (k + 1)) > cfg.conv THEN "step" ELSE "done"
     ELSE k' = k /\ H' = H /\ gprev' = gprev /\ phase' = "step"
  /\ nstep' = 0
  /\ UNCHANGED <<cfg, bin, g>>
WLNext == (\E nbin \in Bins, acc \in BOOLEAN : WLStep(nbin, acc)) \/ FlatCheck

(***************************************************************************)
(* properties (C18)                                                        *)
(***************************************************************************)
NeverLeavesWindow == [][Inside(bin) => Inside(bin')]_wlvars
CountRule == [][phase = "step" =>
                  \/ g' = g /\ H' = H
                  \/ /\ g' = [g EXCEPT ![bin'] = @ + Unit(k)] /\ H' = [H EXCEPT ![bin'] = @ + 1]]_wlvars
FlatRule == [][k' # k => (phase = "flat" /\ AllFlat /\ k' = k + 1 /\ H' = Zeros)]_wlvars
NoEarlyReset == [][(phase = "flat" /\ ~AllFlat) => (k' = k /\ H' = H)]_wlvars
GIncrement == \A b \in Bins : g[b] - gprev[b] = H[b] * Unit(k)        \* per-iteration g increments = ln f * histogram
StopRule == (phase = "done") => ~Running
ScheduleRule == [][(phase = "step" /\ phase' = "flat") <=> (phase = "step" /\ nstep' % cfg.nflat = 0 /\ nstep' > 0)]_wlvars
KBounded == k \in 0..cfg.kmax
=============================================================================
